#!/bin/bash
# Nothing to compile: pams is pure Python and the framework is pure Python.
# Verify the interpreter, the third-party imports and that the framework imports.
cd "$(dirname "$0")" || exit 2
set -e
PY="${VF_PYTHON:-/venv/bin/python}"
"$PY" -W ignore -c "import numpy, scipy, jsonschema, sys; print('python', sys.version.split()[0], 'numpy', numpy.__version__, 'scipy', scipy.__version__)"
PYTHONDONTWRITEBYTECODE=1 "$PY" -W ignore -c "import vf.cli; print('vf ok')"
mkdir -p evidence replays
