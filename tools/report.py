#!/usr/bin/env python3
"""Summarise seeded-change results (seeded/*/meta.json) and mutant sweep logs into markdown."""
import glob, json, os, re, sys
HERE = os.path.dirname(os.path.dirname(os.path.abspath(__file__)))

def mon(c):
    ls = c.get("lines") or []
    return ls[0].lstrip("# ").split(":")[0] if ls else "?"

def seeded_table(prefix):
    rows = []
    for mp in sorted(glob.glob(os.path.join(HERE, "seeded", prefix + "-*", "meta.json"))):
        m = json.load(open(mp))
        own = m["property"] + ":quick"
        hist = [h for h in m.get("history", []) if h.get("check") == own]
        cur = m.get("checks", {}).get(own)
        first = hist[0] if hist else cur
        if first is None:
            first_s = now_s = "not run"
        else:
            first_s = ("caught (`%s`)" % mon(first)) if first.get("detected") else "**missed**"
            if hist and cur is not None:
                now_s = ("caught (`%s`)" % mon(cur)) if cur.get("detected") else "**missed**"
            else:
                now_s = ""
        others = ["%s %s" % (k.split(":")[0], "caught" if c.get("detected") else "missed") for k, c in sorted(m.get("checks", {}).items()) if k != own]
        rows.append("| %s | %s | %s | %s | %s | %s |" % (m["id"], m["property"], m["needs"], first_s, now_s, "; ".join(others)))
    return ("| seeded change | property | needs, in order to manifest | own check as built when the change arrived | own check after strengthening | other checks run |\n"
            "|---|---|---|---|---|---|\n" + "\n".join(rows))

def mutant_table(logdir):
    rows = []
    for lp in sorted(glob.glob(os.path.join(logdir, "*.log"))):
        txt = open(lp).read().strip()
        mid = os.path.basename(lp)[:-4]
        for line in txt.splitlines():
            m = re.match(r"(\S+) (C\d+) \((\d+), (.*)\)$", line)
            if not m:
                continue
            rc = int(m.group(3))
            mons = sorted(set(re.findall(r"# (C\d+\.[a-z_0-9]+)", m.group(4))))
            rows.append("| %s | %s | %s |" % (m.group(1), m.group(2), ("caught: " + ", ".join("`%s`" % x for x in mons)) if rc == 1 and mons else ("silent" if rc == 0 else "rc=%d %s" % (rc, m.group(4)[:80]))))
    return "| mutant (mutants/candidates.json) | check | result |\n|---|---|---|\n" + "\n".join(rows)

if __name__ == "__main__":
    what = sys.argv[1]
    if what == "seeded":
        print(seeded_table(sys.argv[2]))
    else:
        print(mutant_table(sys.argv[2]))
