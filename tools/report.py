#!/usr/bin/env python3
"""Summarise seeded-change results (seeded/*/meta.json) and mutant sweep logs into markdown."""
import glob, json, os, re, sys
HERE = os.path.dirname(os.path.dirname(os.path.abspath(__file__)))

def seeded_table():
    rows = []
    for mp in sorted(glob.glob(os.path.join(HERE, "seeded", "*", "meta.json"))):
        m = json.load(open(mp))
        first = {}
        for h in m.get("history", []):
            first.setdefault(h["check"], h)
        cells = []
        for key, c in sorted(m.get("checks", {}).items()):
            f = first.get(key)
            now = ("caught: " + (c["lines"][0].lstrip("# ").split(":")[0] if c.get("lines") else "?")) if c.get("detected") else "MISSED"
            if f is not None and not f.get("detected") and c.get("detected"):
                cells.append("%s: first missed, %s after strengthening" % (key.split(":")[0], now))
            else:
                cells.append("%s: %s" % (key.split(":")[0], now))
        rows.append("| %s | %s | %s | %s |" % (m["id"], m["property"], "yes" if m.get("confirmed") else "NO", "; ".join(cells) or "not run"))
    return "| seeded change | property | confirmed (suite passes, demo fails/passes) | check results (quick tier) |\n|---|---|---|---|\n" + "\n".join(rows)

def mutant_table(logdir):
    rows = []
    for lp in sorted(glob.glob(os.path.join(logdir, "*.log"))):
        txt = open(lp).read().strip()
        mid = os.path.basename(lp)[:-4]
        for line in txt.splitlines():
            m = re.match(r"(\S+) (C\d+) \((\d+), (.*)\)$", line)
            if not m:
                if "AssertionError" in line or "Error" in line:
                    rows.append("| %s | - | tool error: %s |" % (mid, line[:80]))
                continue
            rc = int(m.group(3))
            mons = sorted(set(re.findall(r"# (C\d+\.[a-z_0-9]+)", m.group(4))))
            rows.append("| %s | %s | %s |" % (m.group(1), m.group(2), ("caught: " + ", ".join(mons)) if rc == 1 and mons else ("silent" if rc == 0 else "rc=%d %s" % (rc, m.group(4)[:80]))))
    return "| mutant | check | result |\n|---|---|---|\n" + "\n".join(rows)

if __name__ == "__main__":
    print(seeded_table())
    if len(sys.argv) > 1:
        print()
        print(mutant_table(sys.argv[1]))
