#!/usr/bin/env python3
"""Confirm a seeded change produced by a sub-agent and run checks against it.

  tools/seeded.py confirm <out-dir> <seed-id> <PID> "<needs>"   -> /verif/seeded/<seed-id>/ {patch.diff, demo.py, notes.md, meta.json}
  tools/seeded.py check <seed-id> [PID,PID...] [--tier quick] [--nproc N]

Everything runs on scratch copies of /repo under /root/vf-scratch (removed afterwards); /repo is never touched."""
import json, os, shutil, subprocess, sys, tempfile, time
HERE = os.path.dirname(os.path.dirname(os.path.abspath(__file__)))
SCRATCH = "/root/vf-scratch"
PY = "/venv/bin/python"

def make_copy(tag):
    os.makedirs(SCRATCH, exist_ok=True)
    d = tempfile.mkdtemp(prefix=tag + "-", dir=SCRATCH)
    subprocess.check_call(["rsync", "-a", "--exclude", ".git", "--exclude", "__pycache__", "--exclude", "docs", "--exclude", "examples", "/repo/", d + "/"])
    return d

def run_demo(tree, demo):
    r = subprocess.run([PY, "-W", "ignore", demo], env=dict(os.environ, PYTHONPATH=tree, PYTHONDONTWRITEBYTECODE="1"), capture_output=True, text=True, cwd=os.path.dirname(demo), timeout=600)
    return r.returncode, (r.stdout + r.stderr).strip().splitlines()[-3:]

def confirm(out, sid, pid, needs):
    dst = os.path.join(HERE, "seeded", sid)
    os.makedirs(dst, exist_ok=True)
    for f in ("patch.diff", "demo.py", "notes.md"):
        if os.path.exists(os.path.join(out, f)):
            shutil.copy(os.path.join(out, f), os.path.join(dst, f))
    meta = dict(id=sid, property=pid, needs=needs, confirmed_at=time.strftime("%Y-%m-%d %H:%M"), ran=[])
    clean = make_copy(sid + "-clean")
    mut = make_copy(sid + "-mut")
    try:
        r = subprocess.run(["patch", "-p1", "-s", "-d", mut, "-i", os.path.join(dst, "patch.diff")], capture_output=True, text=True)
        meta["patch_applies"] = r.returncode == 0
        meta["ran"].append("patch -p1 < patch.diff on a scratch copy of /repo HEAD: rc=%d" % r.returncode)
        r = subprocess.run([PY, "-m", "pytest", "-q", "-p", "no:cacheprovider", "--timeout=900", "--deselect", "tests/samples/test_all.py::test_all"],
                           cwd=mut, capture_output=True, text=True, env=dict(os.environ, PYTHONDONTWRITEBYTECODE="1"))
        last = r.stdout.strip().splitlines()[-1] if r.stdout.strip() else r.stderr[-200:]
        meta["test_suite_with_change"] = last
        meta["tests_pass"] = r.returncode == 0
        meta["ran"].append("pytest (681 tests, test_all deselected) on the changed copy: %s" % last)
        rc_m, out_m = run_demo(mut, os.path.join(dst, "demo.py"))
        rc_c, out_c = run_demo(clean, os.path.join(dst, "demo.py"))
        meta["demo_with_change"] = dict(rc=rc_m, tail=out_m)
        meta["demo_without_change"] = dict(rc=rc_c, tail=out_c)
        meta["ran"].append("demo.py with change rc=%d, without rc=%d" % (rc_m, rc_c))
        meta["confirmed"] = bool(meta["patch_applies"] and meta["tests_pass"] and rc_m != 0 and rc_c == 0)
    finally:
        shutil.rmtree(clean, ignore_errors=True)
        shutil.rmtree(mut, ignore_errors=True)
    old = {}
    mp = os.path.join(dst, "meta.json")
    if os.path.exists(mp):
        old = json.load(open(mp))
    meta["checks"] = old.get("checks", {})
    json.dump(meta, open(mp, "w"), indent=1)
    print(sid, "confirmed" if meta["confirmed"] else "NOT CONFIRMED", meta["test_suite_with_change"], "demo", meta["demo_with_change"]["rc"], meta["demo_without_change"]["rc"])
    return meta

def check(sid, pids, tier="quick", nproc=None):
    dst = os.path.join(HERE, "seeded", sid)
    mp = os.path.join(dst, "meta.json")
    meta = json.load(open(mp))
    pids = pids or [meta["property"]]
    mut = make_copy(sid + "-chk")
    try:
        subprocess.check_call(["patch", "-p1", "-s", "-d", mut, "-i", os.path.join(dst, "patch.diff")])
        for pid in pids:
            env = dict(os.environ, VERIF_REPO=mut)
            if nproc:
                env["VF_NPROC"] = str(nproc)
            t0 = time.time()
            r = subprocess.run([os.path.join(HERE, "tools", "check_scratch.sh"), pid, "--tier", tier], env=env, capture_output=True, text=True)
            lines = [l.strip() for l in r.stdout.splitlines() if l.startswith("VIOLATION") or l.startswith("  #") or l.startswith("HARNESS")]
            # re-read json in case of concurrent updates
            meta = json.load(open(mp))
            key = "%s:%s" % (pid, tier)
            head = subprocess.run(["git", "-C", HERE, "rev-parse", "--short", "HEAD"], capture_output=True, text=True).stdout.strip()
            if key in meta.setdefault("checks", {}):
                meta.setdefault("history", []).append(dict(meta["checks"][key], check=key))
            meta["checks"][key] = dict(verif_commit=head, at=time.strftime("%Y-%m-%d %H:%M"), rc=r.returncode, detected=(r.returncode == 1 and any(l.startswith("VIOLATION") for l in lines)),
                                                                        lines=[l for l in lines if l.startswith("#")][:4], wall_s=round(time.time() - t0, 1))
            json.dump(meta, open(mp, "w"), indent=1)
            print(sid, pid, tier, "rc=%d" % r.returncode, [l for l in lines if l.startswith("#")][:2] or r.stdout.strip().splitlines()[-1:])
    finally:
        shutil.rmtree(mut, ignore_errors=True)

if __name__ == "__main__":
    a = sys.argv[1:]
    if a[0] == "confirm":
        confirm(a[1], a[2], a[3], a[4] if len(a) > 4 else "")
    elif a[0] == "check":
        tier = a[a.index("--tier") + 1] if "--tier" in a else "quick"
        nproc = a[a.index("--nproc") + 1] if "--nproc" in a else None
        pids = a[2].split(",") if len(a) > 2 and not a[2].startswith("--") else None
        check(a[1], pids, tier, nproc)
