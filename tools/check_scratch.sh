#!/bin/bash
# Like ./check, but evidence and replay files go to a throw-away directory (used for mutant /
# seeded-change runs so that /verif/evidence only ever holds runs against /repo itself).
HERE="$(cd "$(dirname "$0")/.." && pwd)"
export VF_OUT_DIR="${VF_OUT_DIR:-$(mktemp -d /root/vf-scratch/out-XXXXXX)}"
cd "$HERE" && exec ./check "$@"
