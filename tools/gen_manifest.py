#!/usr/bin/env python3
"""Regenerates MANIFEST.json from the table below (kept in one place so it stays valid)."""
import json, os, subprocess
HERE = os.path.dirname(os.path.dirname(os.path.abspath(__file__)))
BASE = json.load(open("/root/.vp/BASELINE.json"))["cmd"] if os.path.exists("/root/.vp/BASELINE.json") else \
    "cd /repo && /venv/bin/python -m pytest -ra -q -p no:cacheprovider --timeout=900 --continue-on-collection-errors --junitxml=<file>"
ENG = {
 "M": ("vf/explore_m.py", "explicit-state breadth-first search over operation histories of one real pams Market (states hashed in canonical form, monitors on every transition)"),
 "R": ("vf/explore_r.py", "stateless deviation-bounded depth-first exploration of whole miniature simulations run by the real SequentialRunner with every random/agent/event choice enumerated"),
 "F": ("vf/enum_f.py", "complete enumeration of finite input grids x enumerated PRNG answers of component functions, plus breadth-first search over operation histories of a real Fundamentals object"),
}
# id -> (engine, technique, level text, level note, design ref)
CHECKS = {}
NA = {}
def load():
    spec = json.load(open(os.path.join(HERE, "tools", "checks.json")))
    return spec
def main():
    spec = load()
    props = [json.loads(l) for l in open(os.path.join(HERE, "properties.jsonl"))]
    checks = []
    na = []
    for p in props:
        pid = p["id"]
        c = spec["checks"].get(pid)
        if c is None or not os.path.exists(os.path.join(HERE, "vf", "props", pid.lower() + ".py")):
            na.append(dict(property_id=pid, reason=spec["not_applicable"].get(pid, "check not built yet (planned: bounded exhaustive exploration of the implementation, see DESIGN.md section 3)")))
            continue
        checks.append(dict(
            property_id=pid,
            quick_cmd="./check %s --tier quick" % pid,
            thorough_cmd="./check %s --tier thorough" % pid,
            evidence_file="/verif/evidence/%s.json" % pid,
            replay_cmd_template="./check %s --replay {path}" % pid,
            engine=c["engine"],
            level_claimed=dict(category=c.get("category", "model_checking"), text=c["text"], design_ref=c.get("design_ref", "DESIGN.md section 3, " + pid)),
            level_note=c["note"],
            technique=c["technique"],
        ))
    commits = spec.get("hook_commits", [])
    man = dict(
        version=1,
        setup_cmd="./setup.sh",
        hooks=dict(guard="PAMS_VERIF", enable="none needed: every seam the explorers use is a public constructor argument (prng=, logger=) or the public class-registration mechanism; the guard variable is exported by ./check but read by nothing in the source tree",
                   baseline_off_cmd=BASE, source_commits=commits, add_only=True),
        engines=[dict(name=k, path=v[0], kind_free_text=v[1], serves_properties=[c["property_id"] for c in checks if k in c["engine"].split("+")]) for k, v in ENG.items()],
        checks=checks,
        notes=spec.get("notes", ""),
        not_applicable=na,
    )
    json.dump(man, open(os.path.join(HERE, "MANIFEST.json"), "w"), indent=1)
    try:
        import jsonschema
        jsonschema.validate(man, json.load(open("/root/.vp/MANIFEST.schema.json")))
        print("MANIFEST.json valid: %d checks, %d not_applicable" % (len(checks), len(na)))
    except ImportError:
        print("written (jsonschema not available for validation)")
main()
