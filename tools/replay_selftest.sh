#!/bin/bash
# For a seeded change: run its check against a scratch copy carrying the change, then replay every
# replay file it wrote against the changed copy (must exit 1) and against /repo (must exit 0).
# usage: tools/replay_selftest.sh <seed-id> [PID]
set -u
HERE="$(cd "$(dirname "$0")/.." && pwd)"
SID="$1"; PID="${2:-$(python3 -c "import json;print(json.load(open('$HERE/seeded/$SID/meta.json'))['property'])")}"
D=$(mktemp -d /root/vf-scratch/rst-XXXXXX); OUT=$(mktemp -d /root/vf-scratch/rsto-XXXXXX)
rsync -a --exclude .git --exclude docs --exclude examples /repo/ $D/
patch -p1 -s -d $D -i "$HERE/seeded/$SID/patch.diff"
cd "$HERE"
VERIF_REPO=$D VF_OUT_DIR=$OUT VF_NPROC=${VF_NPROC:-8} ./check $PID > $OUT/run.log 2>&1
n=0; ok=0
for f in $OUT/replays/*.json; do
  [ -e "$f" ] || continue
  n=$((n+1))
  VERIF_REPO=$D VF_OUT_DIR=$OUT ./check $PID --replay $f > $OUT/r1.log 2>&1; a=$?
  VERIF_REPO=/repo VF_OUT_DIR=$OUT ./check $PID --replay $f > $OUT/r2.log 2>&1; b=$?
  if [ $a -eq 1 ] && [ $b -eq 0 ]; then ok=$((ok+1)); else echo "  replay $f: changed tree rc=$a, clean tree rc=$b"; tail -3 $OUT/r1.log; fi
done
echo "$SID $PID: $n replay files, $ok reproduce on the changed tree and pass on the clean tree"
rm -rf $D $OUT
