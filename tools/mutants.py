#!/usr/bin/env python3
"""Apply candidate mutants (mutants/candidates.json) or patch files to a scratch copy of /repo and run
checks against it (VERIF_REPO).  Scratch copies live under /root/vf-scratch and are removed afterwards.

  tools/mutants.py run <mutant-id|patch.diff> <PID>[,<PID>...] [--tier quick] [--tests] [--nproc N]
  tools/mutants.py list [prefix]
"""
import json, os, shutil, subprocess, sys, tempfile
HERE = os.path.dirname(os.path.dirname(os.path.abspath(__file__)))
SCRATCH = "/root/vf-scratch"
CANDS = json.load(open(os.path.join(HERE, "mutants", "candidates.json")))

def make_copy(tag):
    os.makedirs(SCRATCH, exist_ok=True)
    d = tempfile.mkdtemp(prefix=tag + "-", dir=SCRATCH)
    subprocess.check_call(["rsync", "-a", "--exclude", ".git", "--exclude", "__pycache__", "--exclude", "docs", "--exclude", "examples", "/repo/", d + "/"])
    return d

def apply(mid, d):
    if mid.endswith(".diff") or mid.endswith(".patch"):
        subprocess.check_call(["patch", "-p1", "-s", "-d", d, "-i", os.path.abspath(mid)])
        return
    if mid == "none":
        return
    c = CANDS[mid]
    edits = c["edits"] if "edits" in c else [c]
    for e in edits:
        p = os.path.join(d, e["file"])
        s = open(p).read()
        assert e["old"] in s, "mutant %s: old text not found in %s" % (mid, e["file"])
        s = s.replace(e["old"], e["new"]) if e.get("replace_all") else s.replace(e["old"], e["new"], 1)
        open(p, "w").write(s)

def run(mid, pids, tier="quick", tests=False, nproc=None):
    d = make_copy(os.path.basename(mid).replace(".", "_"))
    out = {}
    try:
        apply(mid, d)
        if tests:
            r = subprocess.run(["/venv/bin/python", "-m", "pytest", "-q", "-x", "-p", "no:cacheprovider", "--timeout=900"], cwd=d, capture_output=True, text=True, env=dict(os.environ, PYTHONDONTWRITEBYTECODE="1"))
            out["tests"] = "pass" if r.returncode == 0 else "FAIL: " + r.stdout.strip().splitlines()[-1]
        env = dict(os.environ, VERIF_REPO=d)
        if nproc:
            env["VF_NPROC"] = str(nproc)
        for pid in pids:
            # evidence/replays of mutant runs go to a scratch verif dir: never pollute /verif/evidence
            r = subprocess.run([os.path.join(HERE, "tools", "check_scratch.sh"), pid, "--tier", tier], env=env, capture_output=True, text=True)
            lines = [l for l in r.stdout.splitlines() if l.startswith("VIOLATION") or l.startswith("  #") or l.startswith("HARNESS") or l.startswith("KNOWN")]
            out[pid] = (r.returncode, lines[:6] if lines else r.stdout.strip().splitlines()[-2:] + r.stderr.strip().splitlines()[-3:])
    finally:
        shutil.rmtree(d, ignore_errors=True)
    return out

if __name__ == "__main__":
    a = sys.argv[1:]
    if a[0] == "list":
        for k, v in CANDS.items():
            if len(a) < 2 or k.startswith(a[1]):
                print(k, "survives" if v.get("survives_test_suite") else "killed", "|", v.get("note", ""))
    elif a[0] == "run":
        tier = a[a.index("--tier") + 1] if "--tier" in a else "quick"
        nproc = a[a.index("--nproc") + 1] if "--nproc" in a else None
        res = run(a[1], a[2].split(","), tier, "--tests" in a, nproc)
        for k, v in res.items():
            print(a[1], k, v)
