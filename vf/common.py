"""Shared infrastructure: locating/importing the tree under test, results, evidence, replays,
known findings, process pool.  No pams import happens at module import time."""
import hashlib
import json
import multiprocessing
import os
import sys
import time
import traceback

VERIF_DIR = os.path.dirname(os.path.dirname(os.path.abspath(__file__)))
REPO = os.path.abspath(os.environ.get("VERIF_REPO", "/repo"))
_OUT = os.environ.get("VF_OUT_DIR") or VERIF_DIR  # VF_OUT_DIR: scratch runs against mutants
EVIDENCE_DIR = os.path.join(_OUT, "evidence")
REPLAY_DIR = os.path.join(_OUT, "replays")
KNOWN_FILE = os.path.join(VERIF_DIR, "KNOWN_FINDINGS.txt")
NPROC = int(os.environ.get("VF_NPROC", str(min(16, os.cpu_count() or 1))))

_pams = None


def import_pams():
    """Import pams from the tree named by VERIF_REPO (fresh interpreter => fresh import of the
    current working tree; nothing is cached between runs)."""
    global _pams
    if _pams is not None:
        return _pams
    import warnings

    warnings.simplefilter("ignore")
    if "pams" in sys.modules:
        raise RuntimeError("pams imported before vf.common.import_pams()")
    sys.path.insert(0, REPO)
    import pams  # noqa

    got = os.path.abspath(pams.__file__)
    if not got.startswith(REPO + os.sep):
        raise RuntimeError("pams imported from %s, expected under %s" % (got, REPO))
    _pams = pams
    return pams


class Violation(Exception):
    """Raised by monitors / acceptors.  `monitor` is a short stable id (part of the known-finding
    signature), `msg` a one-line human explanation."""

    def __init__(self, monitor, msg, detail=None):
        super().__init__("%s: %s" % (monitor, msg))
        self.monitor = monitor
        self.msg = msg
        self.detail = detail


class HarnessError(Exception):
    pass


def jsonable(x):
    """Best-effort conversion of explored cases to JSON (for samples / replay files)."""
    if isinstance(x, (str, int, bool)) or x is None:
        return x
    if isinstance(x, float):
        if x != x:
            return "nan"
        if x in (float("inf"), float("-inf")):
            return repr(x)
        return x
    if isinstance(x, (list, tuple)):
        return [jsonable(y) for y in x]
    if isinstance(x, dict):
        return {str(k): jsonable(v) for k, v in x.items()}
    if isinstance(x, (set, frozenset)):
        return sorted((jsonable(y) for y in x), key=repr)
    return repr(x)


def digest(obj):
    return hashlib.blake2b(repr(obj).encode(), digest_size=12).digest()


def hexdigest(obj):
    return hashlib.blake2b(repr(obj).encode(), digest_size=6).hexdigest()


# ------------------------------------------------------------------------------------------------
# known findings


def load_known(property_id):
    """Lines `known: property=<id> sig=<signature> <what fails>` suppress exactly that signature
    (KNOWN-FINDING line, exit 0).  `fixed:` lines suppress nothing."""
    out = {}
    if not os.path.exists(KNOWN_FILE):
        return out
    for line in open(KNOWN_FILE):
        line = line.strip()
        if not line.startswith("known:"):
            continue
        parts = line.split()
        kv = dict(p.split("=", 1) for p in parts[1:3] if "=" in p)
        if kv.get("property") == property_id and "sig" in kv:
            out[kv["sig"]] = " ".join(parts[3:])
    return out


# ------------------------------------------------------------------------------------------------
# result / evidence


class Result:
    def __init__(self, property_id, tier, seed, level="model_checking"):
        self.property_id = property_id
        self.tier = tier
        self.seed = seed
        self.level = level
        self.coverage = {}
        self.assumptions = []
        self.violations = []  # dicts: sig, monitor, msg, replay(payload)
        self.harness_errors = []
        self.t0 = time.time()

    def add_violation(self, monitor, msg, sig, payload):
        """sig identifies the violation for known-finding matching and de-duplication."""
        for v in self.violations:
            if v["sig"] == sig:
                return
        self.violations.append(dict(monitor=monitor, msg=msg, sig=sig, payload=payload))

    def require_witness(self, classes):
        """Vacuity guard: every named witness class must have been exercised."""
        w = self.coverage.setdefault("witness_classes", {})
        missing = [c for c in classes if not w.get(c)]
        if missing:
            self.harness_errors.append("vacuous: witness classes never exercised: %s" % missing)

    def finish(self):
        """Write evidence, replay files, print verdict lines, return exit code."""
        pid = self.property_id
        known = load_known(pid)
        os.makedirs(EVIDENCE_DIR, exist_ok=True)
        os.makedirs(REPLAY_DIR, exist_ok=True)
        new, kn = [], []
        for v in self.violations:
            (kn if v["sig"] in known else new).append(v)
        lines = []
        for v in kn:
            lines.append("KNOWN-FINDING: property=%s sig=%s %s" % (pid, v["sig"], known[v["sig"]]))
        replay_paths = []
        for v in new[:8]:
            payload = dict(v["payload"])
            payload.update(property_id=pid, monitor=v["monitor"], message=v["msg"], sig=v["sig"],
                           repo=REPO)
            path = os.path.join(REPLAY_DIR, "%s-%s.json" % (pid, hexdigest(v["sig"])))
            with open(path, "w") as f:
                json.dump(jsonable(payload), f, indent=1)
            replay_paths.append(path)
            lines.append("VIOLATION property=%s replay=%s" % (pid, path))
            lines.append("  # %s: %s" % (v["monitor"], v["msg"]))
        cov = self.coverage
        cov.setdefault("evaluations", cov.get("transitions", 0))
        cov.setdefault("rule", "")
        ev = dict(
            property_id=pid,
            tier=self.tier,
            seed=int(self.seed),
            level=self.level,
            coverage=jsonable(cov),
            assumptions=self.assumptions,
            wall_s=round(time.time() - self.t0, 2),
            violations=len(new),
            known_findings=len(kn),
            repo=REPO,
            harness_errors=self.harness_errors,
        )
        path = os.path.join(EVIDENCE_DIR, "%s.json" % pid)
        with open(path, "w") as f:
            json.dump(ev, f, indent=1)
        err = validate_evidence(ev)
        if err:
            self.harness_errors.append("evidence does not validate: %s" % err)
        for l in lines:
            print(l)
        c = cov
        print("%s tier=%s states=%s transitions=%s traces=%s evaluations=%s nontrivial=%s wall=%.1fs violations=%d known=%d" % (
            pid, self.tier, c.get("states"), c.get("transitions"), c.get("traces_validated_against_impl"),
            c.get("evaluations"), c.get("distinct_nontrivial"), ev["wall_s"], len(new), len(kn)))
        if self.harness_errors:
            for h in self.harness_errors:
                print("HARNESS-ERROR %s: %s" % (pid, h))
            return 2 if not new else 1
        return 1 if new else 0


_schema = None


def validate_evidence(ev):
    global _schema
    try:
        import jsonschema
    except Exception:
        return None
    try:
        if _schema is None:
            for p in ("/root/.vp/EVIDENCE.schema.json", os.path.join(VERIF_DIR, "vf", "EVIDENCE.schema.json")):
                if os.path.exists(p):
                    _schema = json.load(open(p))
                    break
        if _schema is None:
            return None
        jsonschema.validate(ev, _schema)
        return None
    except Exception as e:  # noqa
        return str(e)[:400]


# ------------------------------------------------------------------------------------------------
# process pool

_pool_fn = None


def _pool_call(arg):
    try:
        return ("ok", _pool_fn(arg))
    except Violation as v:  # should be handled inside fn; treat as harness bug
        return ("err", "unhandled Violation in worker: %s" % v)
    except BaseException:
        return ("err", traceback.format_exc())


def pool_map(fn, items, procs=None, chunksize=1):
    """Unordered parallel map over fork()ed workers; fn must be picklable by reference or a
    closure (fork inherits it through the global).  Harness exceptions are re-raised."""
    global _pool_fn
    items = list(items)
    procs = procs or NPROC
    _pool_fn = fn
    if procs <= 1 or len(items) <= 1:
        out = []
        for it in items:
            st, r = _pool_call(it)
            if st == "err":
                raise HarnessError(r)
            out.append(r)
        return out
    ctx = multiprocessing.get_context("fork")
    out = []
    with ctx.Pool(min(procs, len(items))) as pool:
        for st, r in pool.imap_unordered(_pool_call, items, chunksize):
            if st == "err":
                pool.terminate()
                raise HarnessError(r)
            out.append(r)
        pool.close()
        pool.join()
    return out


def rotate(items, seed):
    """VERIF_SEED only rotates the order in which shards are explored (verdicts do not depend on it)."""
    items = list(items)
    if not items:
        return items
    k = seed % len(items)
    return items[k:] + items[:k]


class Counter(dict):
    def inc(self, k, n=1):
        self[k] = self.get(k, 0) + n

    def merge(self, other):
        for k, v in other.items():
            self[k] = self.get(k, 0) + v
