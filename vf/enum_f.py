"""Engine F: complete enumeration of finite input grids (x enumerated PRNG answers) of component
functions, compared with independently written references."""
import random
import signal
import time

from . import common
from .common import Counter, Violation


class StubRandom(random.Random):
    """PRNG whose answers are fixed by the enumerated case."""

    def __init__(self, u=0.5, g=0.0, choice_index=0, ints=0):
        super().__init__(0)
        self.u = u
        self.g = g
        self.choice_index = choice_index
        self.ints = ints
        self.calls = []

    def random(self):
        self.calls.append("random")
        return self.u

    def gauss(self, mu=0.0, sigma=1.0):
        self.calls.append("gauss")
        return mu + sigma * self.g

    def normalvariate(self, mu=0.0, sigma=1.0):
        self.calls.append("normalvariate")
        return mu + sigma * self.g

    def uniform(self, a, b):
        self.calls.append("uniform")
        return a + (b - a) * self.u

    def randint(self, a, b):
        self.calls.append("randint")
        return min(b, max(a, self.ints))

    def choices(self, population, weights=None, *, cum_weights=None, k=1):
        self.calls.append(("choices", list(population), list(weights) if weights is not None else None))
        self.last_weights = list(weights) if weights is not None else None
        self.last_population = list(population)
        return [list(population)[self.choice_index % len(population)]] * k

    def choice(self, seq):
        self.calls.append("choice")
        return list(seq)[self.choice_index % len(seq)]

    def sample(self, population, k, **kw):
        self.calls.append("sample")
        return list(population)[:k]


class Timeout(BaseException):
    pass


def _alarm(signum, frame):
    raise Timeout()


def with_watchdog(fn, seconds=2.0):
    """Run fn(); a loop that does not return within `seconds` raises Timeout."""
    signal.signal(signal.SIGALRM, _alarm)
    signal.setitimer(signal.ITIMER_REAL, seconds)
    try:
        return fn()
    finally:
        signal.setitimer(signal.ITIMER_REAL, 0)


_GRID = None
_GRID_PID = "?"


def _grid_worker(chunk):
    fn = _GRID
    wit = Counter()
    viol = []
    n = 0
    classes = set()
    slow = 0
    for case in chunk:
        if len(viol) >= 25 or slow >= 2:
            # the check has already failed; do not spend minutes on further (possibly looping) cases
            wit.inc("cases_skipped_after_violations")
            continue
        n += 1
        try:
            r = fn(case, wit)
            if r is not None:
                classes.add(r)
        except Violation as v:
            viol.append((v.monitor, v.msg, case))
            if "terminate" in v.msg or "loop" in v.monitor:
                slow += 1
        except (common.HarnessError, Timeout):
            raise
        except Exception as e:  # noqa
            import traceback
            tb = traceback.extract_tb(e.__traceback__)
            if tb and tb[-1].filename.startswith(common.REPO + "/"):
                # raised inside the library on a case the grid considers valid (expected refusals are caught by the
                # grid functions themselves): a finding of this check, not a failure of the harness
                viol.append(("%s.api_raised" % _GRID_PID, "a library call on an input of the grid raised | %s: %s at %s:%d" % (
                    type(e).__name__, str(e)[:80], tb[-1].filename[len(common.REPO) + 1:], tb[-1].lineno), case))
            else:
                raise
    return n, viol, wit, classes


def run_grid(res, label, cases, fn, seed=0, sample_n=3, payload_extra=None):
    """fn(case, wit) raises Violation or returns a hashable 'outcome class' (for distinct counts)."""
    global _GRID, _GRID_PID
    _GRID = fn
    _GRID_PID = res.property_id
    t0 = time.time()
    cases = list(cases)
    nchunks = max(1, min(len(cases), common.NPROC * 8))
    chunks = [cases[i::nchunks] for i in range(nchunks)]
    chunks = common.rotate(chunks, seed)
    results = common.pool_map(_grid_worker, chunks)
    n = 0
    wit = Counter()
    classes = set()
    first = {}
    for nn, viol, w, cl in results:
        n += nn
        wit.merge(w)
        classes |= cl
        for mon, msg, case in viol:
            key = (mon, msg.split(" | ")[0])
            if key not in first or repr(case) < repr(first[key][1]):
                first[key] = (msg, case)
    for (mon, cls), (msg, case) in sorted(first.items()):
        sig = "%s:%s" % (mon, cls.replace(" ", "_")[:60])
        payload = dict(engine="F", grid=label, case=case)
        payload.update(payload_extra or {})
        res.add_violation(mon, msg, sig, payload)
    cov = res.coverage
    cov["evaluations"] = cov.get("evaluations", 0) + n
    cov["distinct_nontrivial"] = cov.get("distinct_nontrivial", 0) + max(len(classes), 0)
    g = cov.setdefault("grids", {})
    g[label] = dict(cases=n, distinct_outcome_classes=len(classes), wall_s=round(time.time() - t0, 1), exhaustive=True)
    w = cov.setdefault("witness_classes", {})
    for k, v in wit.items():
        w[k] = w.get(k, 0) + v
    step = max(1, len(cases) // sample_n)
    cov.setdefault("samples", []).extend([dict(grid=label, case=common.jsonable(c)) for c in cases[::step][:sample_n]])
    return n
