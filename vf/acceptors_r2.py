"""Engine-R acceptors for the built-in events and index markets: C14, C15, C16, C17."""
import math
from collections import Counter as PyCounter

from .common import Violation
from .acceptors_r import V, close, split_steps, cfg_sessions, cfg_total_steps, cfg_tick
from .explore_r import IndexMarket, LIMIT_ORDER, MARKET_ORDER, HighFrequencyAgent


def tick_round(p, tick, is_buy):
    return (math.floor(p / tick) if is_buy else math.ceil(p / tick)) * tick


def accepted_as_returned(e, sim):
    """acc event: the accepted order equals what its agent returned (price tick-rounded)."""
    ret, post = e[5], e[6]
    if ret is None:
        return True
    _, mid, is_buy, kind_id, price, vol, ttl = ret
    tick = cfg_tick(sim, e[1])
    want_price = None if price is None else (price if price % tick == 0 else tick_round(price, tick, is_buy))
    return (post[1], post[4], post[5].kind_id, post[6], post[8]) == (mid, is_buy, kind_id, vol, ttl) and post[7] == want_price


def session_start(sim, idx):
    return cfg_sessions(sim)[idx][0]


# =================================================================================================
# C14


def acc_C14(w):
    sim = w.runner.simulator
    meta = w.scn.meta
    total = cfg_total_steps(sim)
    # ---- fundamental shocks: closed-form path for every market
    fshocks = meta.get("fshocks", [])
    for m in sim.markets:
        if isinstance(m, IndexMarket):
            continue
        init = meta["initial"][m.name]
        drift = meta.get("drift", {}).get(m.name, 0.0)
        series = m.get_fundamental_prices(range(0, total + 1))
        k = 0
        for t in range(0, total + 1):
            for sh in fshocks:
                if sh["enabled"] and sh["target"] == m.name:
                    t0 = session_start(sim, sh["session"]) + sh["triggerTime"]
                    if t0 <= t < t0 + sh["length"] and t < total:
                        pass
            kk = 0
            for sh in fshocks:
                if sh["enabled"] and sh["target"] == m.name:
                    t0 = session_start(sim, sh["session"]) + sh["triggerTime"]
                    kk += sum(1 for x in range(t0, t0 + sh["length"]) if x <= t and x < total)
            want = init * math.exp(drift * t)
            for sh in fshocks:
                if sh["enabled"] and sh["target"] == m.name:
                    t0 = session_start(sim, sh["session"]) + sh["triggerTime"]
                    n = sum(1 for x in range(t0, t0 + sh["length"]) if x <= t and x < total)
                    want *= (1 + sh["rate"]) ** n
            V(abs(series[t] - want) <= 1e-12 * max(1.0, abs(want)), "C14.fundamental_path",
              "fundamental price path differs from initial x exp(drift t) x (1+rate)^(window steps so far on the target only)",
              "market %s t=%d got %r expected %r" % (m.name, t, series[t], want))
            if kk:
                w.wit.inc("shocked_fundamental_values")
            else:
                w.wit.inc("unshocked_fundamental_values")
    # ---- order-mistake shocks
    mshocks = meta.get("mshocks", [])
    pending = []
    for sh in mshocks:
        if sh["enabled"]:
            pending.append(dict(sh, t0=session_start(sim, sh["session"]) + sh["triggerTime"], done=False))
    for e in w.ev:
        if e[0] != "acc":
            continue
        l = e[2]
        mname = sim.id2market[e[1]].name
        hit = None
        for sh in pending:
            if not sh["done"] and sh["target"] == mname and l.time == sh["t0"]:
                hit = sh
                break
        if hit is None:
            V(accepted_as_returned(e, sim), "C14.untouched",
              "an order other than the first order for the shock's target at its trigger time was altered",
              "market %s t=%d agent returned %s, accepted %s %s v%s ttl%s" % (mname, l.time, e[5], "buy" if l.is_buy else "sell", l.price, l.volume, l.ttl))
            w.wit.inc("orders_unchanged")
            if any(l.time == sh["t0"] and sh["target"] != mname for sh in pending):
                w.wit.inc("order_for_other_market_at_trigger_time")
            continue
        hit["done"] = True
        info = e[7]
        tick = cfg_tick(sim, e[1])
        is_buy = hit["rate"] > 0
        want_price = tick_round(info["mp"] * (1 + hit["rate"]), tick, is_buy)
        V(l.kind == LIMIT_ORDER and l.is_buy == is_buy and l.volume == hit["volume"] and l.ttl == hit["lifetime"]
          and close(l.price, want_price, 1e-12), "C14.mistake_order",
          "the order-mistake shock did not replace the first order for its target at its trigger time by the configured limit order",
          "accepted %s %s v%s ttl%s, expected %s %s v%s ttl%s (market price %s)" % (
              "buy" if l.is_buy else "sell", l.price, l.volume, l.ttl, "buy" if is_buy else "sell", want_price, hit["volume"], hit["lifetime"], info["mp"]))
        w.wit.inc("mistake_order_placed")
        if isinstance(sim.id2agent[l.agent_id], HighFrequencyAgent):
            w.wit.inc("mistake_order_replaces_hft_order")
    for sh in mshocks:
        if not sh["enabled"]:
            w.wit.inc("disabled_shock")
    if w.exc is None:
        w.wit.inc("complete_runs")


# =================================================================================================
# C15


def acc_C15(w):
    sim = w.runner.simulator
    meta = w.scn.meta
    rules = meta.get("limit_rules") or [meta["limit_rule"]]  # dicts(targets=[names], r=.., enabled=bool); disjoint target sets
    rate_of = {}
    for ru in rules:
        if ru["enabled"]:
            for name in ru["targets"]:
                rate_of[name] = ru["r"]
    targets = set(rate_of)
    if len(rules) > 1:
        w.wit.inc("two_rules_in_one_run")
    p0s = {}
    for e in w.ev:
        if e[0] == "acc":
            l, info, ret = e[2], e[7], e[5]
            m = sim.id2market[e[1]]
            p0s.setdefault(m.name, set()).add(info["mp0"])
            if m.name not in targets or ret is None or ret[4] is None:
                V(accepted_as_returned(e, sim), "C15.untouched",
                  "an order for a non-target market, a market order, or an order under a disabled rule was not accepted unchanged",
                  "market %s returned %s accepted price %s" % (m.name, ret, l.price))
                if m.name not in targets:
                    w.wit.inc("non_target_order_accepted")
                elif ret is not None and ret[4] is None:
                    w.wit.inc("market_order_on_target")
                continue
            p = ret[4]
            p0 = info["mp0"]
            r = rate_of[m.name]
            lo, hi = p0 * (1 - r), p0 * (1 + r)
            clipped = min(max(p, lo), hi)
            tk = cfg_tick(sim, e[1])
            want = clipped if clipped % tk == 0 else tick_round(clipped, tk, l.is_buy)
            V(close(l.price, want, 1e-12) and (l.is_buy, l.volume, l.ttl, l.kind.kind_id) == (ret[2], ret[5], ret[6], ret[3]),
              "C15.clip", "a limit order accepted on a target market does not carry the submitted price clipped into the band and tick-rounded",
              "submitted %s p0=%s r=%s band=[%s,%s] accepted %s expected %s" % (p, p0, r, lo, hi, l.price, want))
            if p > hi:
                w.wit.inc("clipped_from_above")
            elif p < lo:
                w.wit.inc("clipped_from_below")
            elif p in (lo, hi):
                w.wit.inc("on_band_edge")
            else:
                w.wit.inc("inside_band")
            if p != clipped and clipped % tk != 0:
                w.wit.inc("clipped_then_rounded")
    # fills on target markets stay inside the band widened by one tick (whenever p0 never moved)
    for e in w.ev:
        if e[0] == "round" and e[2]:
            m = sim.id2market[e[1]]
            if m.name in targets and len(p0s.get(m.name, ())) == 1 and e[4]["mp0"] in p0s[m.name]:
                p0 = e[4]["mp0"]
                r = rate_of[m.name]
                for f in e[2]:
                    V(p0 * (1 - r) - cfg_tick(sim, e[1]) <= f.price <= p0 * (1 + r) + cfg_tick(sim, e[1]), "C15.fill_band",
                      "a trade on a target market happened outside the band widened by one tick", "price %s p0 %s r %s" % (f.price, p0, r))
                    w.wit.inc("fills_checked_against_band")


# =================================================================================================
# C16


def make_running_observer():
    def obs(w, label):
        if label[0] == "steplog":
            sim = w.runner.simulator
            w.rec("obs", label, {m.market_id: m.is_running for m in sim.markets}, sim.markets[0].get_time())
    return obs


def acc_C16(w):
    sim = w.runner.simulator
    meta = w.scn.meta
    rules = meta["halt_rules"]  # list of dict(targets=[names], r, L)
    cfg_sessions = w.scn.cfg["simulation"]["sessions"]
    per_step = []
    for i, s in enumerate(cfg_sessions):
        per_step += [(i, s)] * s["iterationSteps"]
    last_step_of_session = {}
    for t, (i, s) in enumerate(per_step):
        last_step_of_session[i] = t
    rule_of = {}
    for ri, ru in enumerate(rules):
        for name in ru["targets"]:
            rule_of.setdefault(sim.name2market[name].market_id, []).append(ri)
    if any(len(v) > 1 for v in rule_of.values()):
        w.wit.inc("two_rules_on_one_market")
    n_halts = [0] * len(rules)
    halted = {}  # market_id -> (since, rule index, session index)
    expected = {}  # market_id -> expected is_running
    t = -1
    cur_session = None
    for e in w.ev:
        k = e[0]
        if k == "clock":
            if e[1] == sim.markets[0].market_id:
                t = e[2]
            continue
        if t < 0 or t >= len(per_step):
            continue
        si, s = per_step[t]
        if k == "obs" and e[1][1] == "MarketStepBeginLog":
            mid = e[1][2]
            if cur_session != si and mid == sim.markets[0].market_id:
                # a new session sets the running state of every market by its execution flag
                cur_session = si
                for m in sim.markets:
                    expected[m.market_id] = s["withOrderExecution"]
                halted = {}
            if mid in halted:
                since, ri, hs = halted[mid]
                if t > since + rules[ri]["L"]:
                    expected[mid] = True
                    del halted[mid]
                    w.wit.inc("resumed_after_halt")
            V(e[2][mid] == expected[mid], "C16.schedule",
              "a market's running state at a step start differs from the halt schedule (stopped for the configured further steps, resumed at the step after, session start resets)",
              "market %s step %d: running=%s expected %s" % (mid, t, e[2][mid], expected[mid]))
            if mid in halted:
                w.wit.inc("halted_step")
        elif k == "obs" and e[1][1] == "MarketStepEndLog":
            mid = e[1][2]
            V(e[2][mid] == expected[mid], "C16.schedule_end",
              "a market's running state at a step end differs from the halt schedule",
              "market %s step %d: running=%s expected %s" % (mid, t, e[2][mid], expected[mid]))
            if mid not in rule_of and s["withOrderExecution"]:
                w.wit.inc("non_target_market_running")
        elif k in ("acc", "can"):
            mid = e[1]
            if mid in expected:
                V(e[-1]["running"] == expected[mid], "C16.running_at_order",
                  "a market's running state when an order arrives differs from the halt schedule",
                  "market %s step %d: running=%s expected %s" % (mid, t, e[-1]["running"], expected[mid]))
            if mid in halted:
                w.wit.inc("order_or_cancel_accepted_during_halt")
        elif k == "round":
            mid, fills, running, post = e[1], e[2], e[3], e[4]
            if fills and t == 0 and post["mp0"] != 100.0:
                w.wit.inc("time0_price_moved_by_trades_in_step0")
            if fills:
                V(running, "C16.fill_while_stopped", "a fill was recorded on a market that is not running", "market %s step %d" % (mid, t))
                V(mid not in halted, "C16.fill_during_halt", "a fill was recorded on a halted market", "market %s step %d" % (mid, t))
                for ri in rule_of.get(mid, []):
                    ru = rules[ri]
                    p0, mp = post["mp0"], post["mp"]
                    if expected.get(mid) and abs(p0 - mp) >= abs(p0 * ru["r"] * (n_halts[ri] + 1)):
                        halted[mid] = (t, ri, si)
                        expected[mid] = False
                        n_halts[ri] += 1
                        w.wit.inc("halt_triggered")
                        if len(fills) >= 2:
                            w.wit.inc("halt_after_multi_fill_round")
                        if n_halts[ri] >= 2:
                            w.wit.inc("second_halt_of_a_rule")
                        if t + ru["L"] > last_step_of_session[si]:
                            w.wit.inc("halt_running_into_session_end")
                    elif expected.get(mid):
                        w.wit.inc("fill_below_halt_line")
    if w.exc is None:
        w.wit.inc("complete_runs")


# =================================================================================================
# C17


def _config_components(w, index_market):
    """the components of an index market as the CONFIGURATION names them (not as the index market reports them)"""
    sim = w.runner.simulator
    names = w.scn.cfg[index_market.name]["markets"] if index_market.name in w.scn.cfg else None
    if names is None:
        return index_market.get_components()
    return [sim.name2market[n] for n in names]


def _config_shares(w, market):
    """a component's outstanding shares as the CONFIGURATION states them"""
    blk = w.scn.cfg.get(market.name)
    return blk["outstandingShares"] if blk is not None and "outstandingShares" in blk else market.outstanding_shares


def make_index_observers():
    """after_clock: snapshot taken immediately after each clock advance of an index market."""
    def after_clock(w, market):
        if isinstance(market, IndexMarket):
            t = market.get_time()
            comps = _config_components(w, market)
            w.rec("idx_clock", market.market_id, t, market.get_fundamental_price(t),
                  [(_config_shares(w, c), c.get_fundamental_price(t), c.get_time()) for c in comps])
        # whichever market has just been stepped: every index market asked for its value WITHOUT naming a time (= at its own
        # current time), possibly while its components' clocks are already one step ahead of its own
        for im in w.runner.simulator.markets:
            if isinstance(im, IndexMarket) and im.get_time() >= 0:
                ti = im.get_time()
                comps = _config_components(w, im)
                if all(c.get_time() >= ti for c in comps):
                    w.rec("idx_now", im.market_id, ti, im.get_index(), im.get_market_index(), im.compute_market_index(),
                          [(_config_shares(w, c), c.get_market_price(ti)) for c in comps], max(c.get_time() for c in comps))

    def obs(w, label):
        sim = w.runner.simulator
        for m in sim.markets:
            if isinstance(m, IndexMarket):
                t = m.get_time()
                comps = _config_components(w, m)
                w.rec("idx_obs", m.market_id, t,
                      [(s_, m.get_index(s_), m.get_market_index(s_), [(_config_shares(w, c), c.get_market_price(s_)) for c in comps])
                       for s_ in range(0, t + 1)])
    return obs, after_clock


def wavg(pairs):
    tot = sum(sh for sh, _ in pairs)
    return sum(sh * p for sh, p in pairs) / tot


def acc_C17(w):
    nobs = 0
    for e in w.ev:
        if e[0] == "idx_clock":
            _, mid, t, fund, comps = e
            V(all(ct == t for _, _, ct in comps), "C17.order", "an index market was stepped before one of its components",
              "index time %d, component times %s" % (t, [ct for _, _, ct in comps]))
            want = wavg([(sh, f) for sh, f, _ in comps])
            V(close(fund, want, 1e-12), "C17.fundamental",
              "the fundamental value an index market records at a clock advance is not the share-weighted average of its components' fundamentals for the new time",
              "t=%d got %r expected %r" % (t, fund, want))
            w.wit.inc("index_clock_advances")
            if len(set(sh for sh, _, _ in comps)) > 1:
                w.wit.inc("unequal_shares")
            if len(comps) >= 3:
                w.wit.inc("three_components")
        elif e[0] == "idx_now":
            _, mid, ti, g1, g2, g3, comps, tc = e
            want = wavg(comps)
            V(close(g1, want, 1e-12) and close(g2, want, 1e-12) and close(g3, want, 1e-12), "C17.index",
              "an index value read without naming a time differs from the share-weighted average of the components' market prices at the index market's current time",
              "index time %d (components already at %d): get_index()=%r get_market_index()=%r compute_market_index()=%r expected %r" % (ti, tc, g1, g2, g3, want))
            if tc > ti:
                w.wit.inc("index_read_while_components_are_ahead")
        elif e[0] == "idx_obs":
            nobs += 1
            for s_, gi, gmi, comps in e[3]:
                want = wavg(comps)
                V(close(gi, want, 1e-12) and close(gmi, want, 1e-12), "C17.index",
                  "an index value differs from the share-weighted average of the components' market prices at that time",
                  "time %d (now %d): get_index=%r get_market_index=%r expected %r" % (s_, e[2], gi, gmi, want))
                if s_ < e[2] and len(set(p for _, p in comps)) > 1:
                    w.wit.inc("past_time_with_unequal_component_prices")
    w.wit.inc("index_observations", nobs)
