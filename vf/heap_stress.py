"""Deep one-sided books: every arrival order (permutation) of n distinct price levels on one side,
every single cancel, followed by (A) a sweep of k levels in one round for every k in 2..n-2, (B) cancels of the two
best orders and a crossing order at the then-best level, (C) a market order sweeping two levels, and -- without any
cancel -- (D) three sweeps in a row (k1 levels, k2 levels, one level).  Run on the real Market through the
Engine-M World with the property's monitors.  (Most heap-layout defects need >= 5-7 resting
orders on one side in a particular arrival order -- out of reach of a depth-4 search from the
empty book.)"""
import itertools

from .common import Violation
from .enum_f import run_grid
from .explore_m import World, K

_FACTORY = None
_VARIANTS = ("A", "B", "C")
_D_MAX_N = 6


def cases(ns):
    for side in (True, False):
        for n in ns:
            for perm in itertools.permutations(range(n)):
                yield (side, n, perm)


def _build(side, perm, factory):
    w = World("free", factory())
    for k in perm:
        w.apply(("L", side, 100 + k, 1, None))
    return w


def _best_index(w, side):
    lv = w.live()
    same = [o for o in lv if o.is_buy == side]
    if not same:
        return None
    top = min(same, key=K)
    return [i for i, o in enumerate(lv) if o is top][0]


def fn(case, wit):
    side, n, perm = case
    worst = 100 if side else 100 + n - 1  # price that crosses every resting level
    if "D" in _VARIANTS and n <= _D_MAX_N:
        # (D) no cancel: a sweep of k1 levels, then a sweep of k2 levels, then one more level -- three rounds in a row
        # on the same side (what one round leaves behind is what the next one starts from)
        try:
            for k1 in range(1, n - 1):
                for k2 in range(1, n - k1):
                    w = _build(side, perm, _FACTORY)
                    for k in (k1, k2, 1):
                        w.apply(("L", not side, worst, k, None))
                        w.apply(("X",))
                    wit.merge(w.wit)
                    wit.inc("deep_book_cases")
        except Violation as v:
            raise Violation(v.monitor, v.msg.split(" | ")[0], "deep book: %s side, arrival order of price levels %s, successive sweeps | %s" % (
                "buy" if side else "sell", [100 + k for k in perm], v.msg.split(" | ", 1)[-1]))
    for c in range(n):
        try:
            # (A) cancel, then sweep k levels in one round, for every k (the round's price is set by the LAST
            # level reached, so whether an out-of-order level shows depends on where the sweep stops)
            for k in (range(2, n - 1) if "A" in _VARIANTS else ()):
                w = _build(side, perm, _FACTORY)
                w.apply(("C", c))
                w.apply(("L", not side, worst, k, None))
                w.apply(("X",))
                wit.merge(w.wit)
                wit.inc("deep_book_cases")
            if "B" not in _VARIANTS:
                continue
            # (B) cancel, cancel the two best, then cross the then-best level
            w = _build(side, perm, _FACTORY)
            w.apply(("C", c))
            for _ in range(2):
                bi = _best_index(w, side)
                if bi is not None:
                    w.apply(("C", bi))
            rest = [o for o in w.live() if o.is_buy == side]
            if rest:
                p = min(rest, key=K).price
                w.apply(("L", not side, p, 1, None))
                w.apply(("X",))
            wit.merge(w.wit)
            # (C) cancel, one clock step (expiry path untouched), market order sweeping 2 levels
            w = _build(side, perm, _FACTORY)
            w.apply(("C", c))
            w.apply(("M", not side, 2, None))
            w.apply(("X",))
            wit.merge(w.wit)
        except Violation as v:
            raise Violation(v.monitor, v.msg.split(" | ")[0], "deep book: %s side, arrival order of price levels %s, cancel #%d | %s" % (
                "buy" if side else "sell", [100 + k for k in perm], c, v.msg.split(" | ", 1)[-1]))
        wit.inc("deep_book_cases", 2)
    return (side, n)


# ------------------------------------------------------------------------------------------------
# (E) every heap layout of n resting orders


def heap_layouts(n):
    """all arrays of the ranks 0..n-1 that satisfy the binary-heap order (rank 0 = best).  Submitting n orders in
    array order builds exactly that array (a pushed element that is not better than its parent stays where it is), so
    these are all the internal layouts a side of n distinct price levels can have after n submissions -- 3360 for
    n = 10 instead of 10! arrival orders."""
    def sizes(m):
        # sizes of the left / right subtree of a complete binary tree with m nodes
        if m <= 1:
            return 0, 0
        h = m.bit_length() - 1
        last = m - (2 ** h - 1)
        left = (2 ** (h - 1) - 1) + min(last, 2 ** (h - 1))
        return left, m - 1 - left

    def build(keys):
        m = len(keys)
        if m == 0:
            yield {}
            return
        root, rest = keys[0], keys[1:]
        L, R = sizes(m)
        for left in itertools.combinations(rest, L):
            ls = set(left)
            right = tuple(k for k in rest if k not in ls)
            for lt in build(left):
                for rt in build(right):
                    yield (root, lt, rt)

    def flatten(tree, n):
        arr = [None] * n

        def put(t, i):
            if not t:
                return
            arr[i] = t[0]
            put(t[1], 2 * i + 1)
            put(t[2], 2 * i + 2)
        put(tree, 0)
        return tuple(arr)

    for t in build(tuple(range(n))):
        yield flatten(t, n)


def layout_cases(ns):
    for side in (True, False):
        for n in ns:
            for arr in heap_layouts(n):
                yield (side, n, arr)


def layout_fn(case, wit):
    """build the layout, sweep k1 levels in one round, then take the remaining levels one round at a time: whatever
    a round leaves behind is what the following rounds start from"""
    side, n, arr = case
    worst = 100 if side else 100 + n - 1
    price = (lambda r: 100 + (n - 1 - r)) if side else (lambda r: 100 + r)
    try:
        for k1 in range(1, n - 1):
            w = World("free", _FACTORY())
            for r in arr:
                w.apply(("L", side, price(r), 1, None))
            w.apply(("L", not side, worst, k1, None))
            w.apply(("X",))
            for j in range(n - k1):
                # alternately an order that crosses every level and one priced exactly at the best remaining level
                # (which trades only if the book knows which order its best one is)
                rest = [o for o in w.live() if o.is_buy == side]
                p = min(rest, key=K).price if (rest and j % 2 == 0) else worst
                w.apply(("L", not side, p, 1, None))
                w.apply(("X",))
            wit.merge(w.wit)
            wit.inc("heap_layout_cases")
    except Violation as v:
        raise Violation(v.monitor, v.msg.split(" | ")[0], "deep book: %s side, price levels submitted in the order %s, a sweep of %d levels then one level per round | %s" % (
            "buy" if side else "sell", [price(r) for r in arr], k1, v.msg.split(" | ", 1)[-1]))
    # one order of the layout carries a time-to-live and expires alone (every position: root, inner node, leaf, last slot);
    # then a sweep of three levels and one round per remaining level
    try:
        for j in range(n):
            w = World("free", _FACTORY())
            for i, r in enumerate(arr):
                w.apply(("L", side, price(r), 1, 1 if i == j else None))
            w.apply(("T",))
            w.apply(("T",))
            w.apply(("L", not side, worst, 3, None))
            w.apply(("X",))
            for _ in range(n - 4):
                rest = [o for o in w.live() if o.is_buy == side]
                if not rest:
                    break
                w.apply(("L", not side, min(rest, key=K).price, 1, None))
                w.apply(("X",))
            wit.merge(w.wit)
            wit.inc("heap_layout_cases")
    except Violation as v:
        raise Violation(v.monitor, v.msg.split(" | ")[0], "deep book: %s side, price levels submitted in the order %s, the order submitted as #%d expires, then a sweep of 3 levels and one level per round | %s" % (
            "buy" if side else "sell", [price(r) for r in arr], j, v.msg.split(" | ", 1)[-1]))
    return (side, n)


def expiry_fn(case, wit):
    """one or two orders of the layout carry a time-to-live and expire together (every position: root, inner nodes, leaves,
    last slot), then ONE round that sweeps k levels, for every k: a round shows a wrong order of the queue only if it stops
    right behind the misplaced order"""
    side, n, arr = case
    worst = 100 if side else 100 + n - 1
    price = (lambda r: 100 + (n - 1 - r)) if side else (lambda r: 100 + r)
    gone = k1 = None
    try:
        for gone in [(j,) for j in range(n)] + list(itertools.combinations(range(n), 2)):
            for k1 in range(1, n - len(gone) + 1):
                w = World("free", _FACTORY())
                for i, r in enumerate(arr):
                    w.apply(("L", side, price(r), 1, 1 if i in gone else None))
                w.apply(("T",))
                w.apply(("T",))
                w.apply(("L", not side, worst, k1, None))
                w.apply(("X",))
                rest = [o for o in w.live() if o.is_buy == side]
                if rest:
                    w.apply(("L", not side, min(rest, key=K).price, 1, None))
                    w.apply(("X",))
                wit.merge(w.wit)
                wit.inc("heap_expiry_cases")
    except Violation as v:
        raise Violation(v.monitor, v.msg.split(" | ")[0], "deep book: %s side, price levels submitted in the order %s, the orders submitted as #%s expire, then a sweep of %d levels | %s" % (
            "buy" if side else "sell", [price(r) for r in arr], list(gone), k1, v.msg.split(" | ", 1)[-1]))
    return (side, n)


# ------------------------------------------------------------------------------------------------
# (T) books with ties: every arrival sequence of n orders over three price levels


def ties_cases(ns):
    for side in (True, False):
        for n in ns:
            for seq in itertools.product((0, 1, 2), repeat=n):
                if len(set(seq)) >= 2:
                    yield (side, n, seq)


def ties_fn(case, wit):
    """orders of equal price in every arrival pattern (time priority inside a level): with and without somebody reading the
    book's public views first, a sweep of k orders, then one order per round"""
    side, n, seq = case
    worst = 100 if side else 102
    price = (lambda r: 102 - r) if side else (lambda r: 100 + r)
    try:
        for look in (False, True):
            for k1 in (2, 3, 4):
                if k1 >= n:
                    continue
                w = World("free", _FACTORY())
                for i, r in enumerate(seq):
                    w.apply(("L", side, price(r), 1, None))
                    if i == n // 2:
                        w.apply(("T",))  # the second half arrives one step later
                if look:
                    w.apply(("V",))
                w.apply(("L", not side, worst, k1, None))
                w.apply(("X",))
                for _ in range(n - k1):
                    rest = [o for o in w.live() if o.is_buy == side]
                    if not rest:
                        break
                    w.apply(("L", not side, min(rest, key=K).price, 1, None))
                    w.apply(("X",))
                wit.merge(w.wit)
                wit.inc("tie_book_cases")
    except Violation as v:
        raise Violation(v.monitor, v.msg.split(" | ")[0], "book with ties: %s side, prices submitted in the order %s%s, a sweep of %d orders then one per round | %s" % (
            "buy" if side else "sell", [price(r) for r in seq], ", public views read before the sweep" if look else "", k1, v.msg.split(" | ", 1)[-1]))
    return (side, n)


def run_ties(res, factory, tier, seed, ns=None):
    global _FACTORY
    _FACTORY = factory
    ns = ns or ((5, 6) if tier == "quick" else (5, 6, 7, 8))
    ev0, dn0 = res.coverage.get("evaluations", 0), res.coverage.get("distinct_nontrivial", 0)
    run_grid(res, "books_with_ties", list(ties_cases(ns)), ties_fn, seed)
    res.coverage["evaluations"] = ev0 + res.coverage["witness_classes"].get("tie_book_cases", 0)
    res.coverage["distinct_nontrivial"] = dn0
    res.coverage["grids"]["books_with_ties"]["orders_per_side"] = list(ns)
    res.require_witness(["tie_book_cases"])


def run_layouts(res, factory, tier, seed, ns=None):
    global _FACTORY
    _FACTORY = factory
    ns = ns or ((9, 10) if tier == "quick" else (9, 10, 11))
    ev0, dn0 = res.coverage.get("evaluations", 0), res.coverage.get("distinct_nontrivial", 0)
    run_grid(res, "heap_layouts", list(layout_cases(ns)), layout_fn, seed)
    res.coverage["evaluations"] = ev0 + res.coverage["witness_classes"].get("heap_layout_cases", 0)
    res.coverage["distinct_nontrivial"] = dn0
    res.coverage["grids"]["heap_layouts"]["orders_per_side"] = list(ns)
    res.require_witness(["heap_layout_cases"])
    ns2 = (6, 7, 8) if tier == "quick" else (6, 7, 8, 9)
    ev0 = res.coverage["evaluations"]
    run_grid(res, "heap_layouts_with_expiries", list(layout_cases(ns2)), expiry_fn, seed)
    res.coverage["evaluations"] = ev0 + res.coverage["witness_classes"].get("heap_expiry_cases", 0)
    res.coverage["distinct_nontrivial"] = dn0
    res.coverage["grids"]["heap_layouts_with_expiries"]["orders_per_side"] = list(ns2)
    res.require_witness(["heap_expiry_cases"])


def run(res, factory, tier, seed, ns=None, variants=("A", "B", "C", "D")):
    global _FACTORY, _VARIANTS, _D_MAX_N
    _FACTORY = factory
    _VARIANTS = variants
    _D_MAX_N = int(__import__("os").environ.get("VF_HEAP_D_MAX_N", "6" if tier == "quick" else "8"))
    ns = ns or ((5, 6, 7) if tier == "quick" else (5, 6, 7, 8))
    ev0, dn0 = res.coverage.get("evaluations", 0), res.coverage.get("distinct_nontrivial", 0)
    run_grid(res, "deep_one_sided_books", list(cases(ns)), fn, seed)
    res.coverage["evaluations"] = ev0 + res.coverage["witness_classes"].get("deep_book_cases", 0)
    res.coverage["distinct_nontrivial"] = dn0
    res.coverage["grids"]["deep_one_sided_books"]["orders_per_side"] = list(ns)
    res.require_witness(["deep_book_cases"])


def replay(payload, factory):
    global _FACTORY
    _FACTORY = factory
    from .common import Counter
    c = payload["case"]
    case = (c[0], c[1], tuple(c[2]))
    print("deep one-sided book case (is_buy side, n, arrival permutation / heap layout):", case)
    try:
        {"heap_layouts": layout_fn, "heap_layouts_with_expiries": expiry_fn, "books_with_ties": ties_fn}.get(payload.get("grid"), fn)(case, Counter())
    except Violation as v:
        print("  ==> VIOLATION %s: %s" % (v.monitor, v.msg))
        return v
    return None
