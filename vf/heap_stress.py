"""Deep one-sided books: every arrival order (permutation) of n distinct price levels on one side,
every single cancel, followed by (A) a sweep of k levels in one round for every k in 2..n-2, (B) cancels of the two
best orders and a crossing order at the then-best level.  Run on the real Market through the
Engine-M World with the property's monitors.  (Most heap-layout defects need >= 5-7 resting
orders on one side in a particular arrival order -- out of reach of a depth-4 search from the
empty book.)"""
import itertools

from .common import Violation
from .enum_f import run_grid
from .explore_m import World, K

_FACTORY = None
_VARIANTS = ("A", "B", "C")


def cases(ns):
    for side in (True, False):
        for n in ns:
            for perm in itertools.permutations(range(n)):
                yield (side, n, perm)


def _build(side, perm, factory):
    w = World("free", factory())
    for k in perm:
        w.apply(("L", side, 100 + k, 1, None))
    return w


def _best_index(w, side):
    lv = w.live()
    same = [o for o in lv if o.is_buy == side]
    if not same:
        return None
    top = min(same, key=K)
    return [i for i, o in enumerate(lv) if o is top][0]


def fn(case, wit):
    side, n, perm = case
    worst = 100 if side else 100 + n - 1  # price that crosses every resting level
    for c in range(n):
        try:
            # (A) cancel, then sweep k levels in one round, for every k (the round's price is set by the LAST
            # level reached, so whether an out-of-order level shows depends on where the sweep stops)
            for k in (range(2, n - 1) if "A" in _VARIANTS else ()):
                w = _build(side, perm, _FACTORY)
                w.apply(("C", c))
                w.apply(("L", not side, worst, k, None))
                w.apply(("X",))
                wit.merge(w.wit)
                wit.inc("deep_book_cases")
            if "B" not in _VARIANTS:
                continue
            # (B) cancel, cancel the two best, then cross the then-best level
            w = _build(side, perm, _FACTORY)
            w.apply(("C", c))
            for _ in range(2):
                bi = _best_index(w, side)
                if bi is not None:
                    w.apply(("C", bi))
            rest = [o for o in w.live() if o.is_buy == side]
            if rest:
                p = min(rest, key=K).price
                w.apply(("L", not side, p, 1, None))
                w.apply(("X",))
            wit.merge(w.wit)
            # (C) cancel, one clock step (expiry path untouched), market order sweeping 2 levels
            w = _build(side, perm, _FACTORY)
            w.apply(("C", c))
            w.apply(("M", not side, 2, None))
            w.apply(("X",))
            wit.merge(w.wit)
        except Violation as v:
            raise Violation(v.monitor, v.msg.split(" | ")[0], "deep book: %s side, arrival order of price levels %s, cancel #%d | %s" % (
                "buy" if side else "sell", [100 + k for k in perm], c, v.msg.split(" | ", 1)[-1]))
        wit.inc("deep_book_cases", 2)
    return (side, n)


def run(res, factory, tier, seed, ns=None, variants=("A", "B", "C")):
    global _FACTORY, _VARIANTS
    _FACTORY = factory
    _VARIANTS = variants
    ns = ns or ((5, 6, 7) if tier == "quick" else (5, 6, 7, 8))
    ev0, dn0 = res.coverage.get("evaluations", 0), res.coverage.get("distinct_nontrivial", 0)
    run_grid(res, "deep_one_sided_books", list(cases(ns)), fn, seed)
    res.coverage["evaluations"] = ev0 + res.coverage["witness_classes"].get("deep_book_cases", 0)
    res.coverage["distinct_nontrivial"] = dn0
    res.coverage["grids"]["deep_one_sided_books"]["orders_per_side"] = list(ns)
    res.require_witness(["deep_book_cases"])


def replay(payload, factory):
    global _FACTORY
    _FACTORY = factory
    from .common import Counter
    c = payload["case"]
    case = (c[0], c[1], tuple(c[2]))
    print("deep one-sided book case (is_buy side, n, arrival permutation):", case)
    try:
        fn(case, Counter())
    except Violation as v:
        print("  ==> VIOLATION %s: %s" % (v.monitor, v.msg))
        return v
    return None
