"""Engine M: explicit-state breadth-first exploration of ONE real pams.market.Market.

A state is identified with the shortest operation history reaching it; to expand a state the
history is replayed on a fresh Market, one more op is applied, the property monitors run on the
transition, and the successor is hashed in canonical form (see DESIGN.md 2.1)."""
import heapq
import pickle
import random
import signal
import time

from . import common
from .common import Violation, Counter

common.import_pams()
from pams.logs.base import (CancelLog, ExecutionLog, ExpirationLog, Logger,  # noqa: E402
                            OrderLog)
from pams.market import Market  # noqa: E402
from pams.order import LIMIT_ORDER, MARKET_ORDER, Cancel, Order  # noqa: E402
from pams.simulator import Simulator  # noqa: E402


def K(o):
    """Priority key written from the property text (never through Order.__lt__):
    market orders first, then better price, then earlier acceptance, then lower id."""
    if o.kind == MARKET_ORDER or o.price is None:
        return (0, 0.0, o.placed_at, o.order_id)
    return (1, -o.price if o.is_buy else o.price, o.placed_at, o.order_id)


def age_key(o):
    return (o.placed_at, o.order_id)


class RecLogger(Logger):
    def __init__(self):
        super().__init__()
        self.got = []  # (how, log)

    def write(self, log):
        self.got.append(("w", log))

    def bulk_write(self, logs):
        for l in logs:
            self.got.append(("bw", l))

    def write_and_direct_process(self, log):
        self.got.append(("wd", log))


class Hang(BaseException):
    pass


def _alarm(signum, frame):
    raise Hang()


class Sub:
    """One sub-step of a transition: the book event itself or the matching round that follows it."""
    __slots__ = ("kind", "op", "order", "pre_buy", "pre_sell", "ret", "logged", "exc", "time",
                 "running", "implicit")

    def __init__(self, kind, op):
        self.kind = kind
        self.op = op
        self.order = None
        self.ret = None
        self.logged = []
        self.exc = None
        self.implicit = False


class Entry:
    """Harness-side record of a submitted order object (identity based; never == on orders)."""
    __slots__ = ("o", "acc", "acc_price", "sub_price", "fills", "term", "cancel_time", "expired", "n")

    def __init__(self, o, n):
        self.o = o
        self.n = n
        self.acc = o.volume
        self.fills = 0
        self.term = None
        self.cancel_time = None
        self.expired = False


_SHARED = {}


def _shared_sim():
    if "sim" not in _SHARED:
        _SHARED["sim"] = _SharedSim(prng=_SharedRandom(0))
    return _SHARED["sim"]


def _shared_rng():
    if "rng" not in _SHARED:
        _SHARED["rng"] = _SharedRandom(1)
    return _SHARED["rng"]


class _SharedRandom(random.Random):
    """a real PRNG for the markets under test (they never draw from it); pickled as a reference to one per-process object"""

    def __reduce__(self):
        return (_shared_rng, ())


class _SharedSim(Simulator):
    """a REAL simulator object for the markets under test to point to (a market that looked at its simulator would find
    one); it holds no markets, and worlds copied through pickle share one per process"""

    def __reduce__(self):
        return (_shared_sim, ())


class World:
    TICK = 1.0
    P0 = 100.0

    def __init__(self, mode, monitors, tick=1.0, chunk=None, index=False, shares=None, shape=None):
        self.mode = mode  # "cont" | "free"
        # shape of the order objects handed to the market: None = built with the library's constants and plain bools;
        # "copied" = every order went through copy.deepcopy (its kind EQUALS the library constant without being it: an
        # agent submitting copies of a template, an order that crossed a process boundary); "copied_odd" = every second
        # one; "npside" / "intside" = the side flag is numpy.bool_ / 0-1 (an agent computing the side with numpy)
        self.shape = shape
        self.lg = RecLogger()
        self.comps = []
        if index:
            # the market under test is an IndexMarket over two plain component markets (op XC stops / restarts
            # the first component): everything a Market promises about its book holds for an IndexMarket too
            import types
            from pams.index_market import IndexMarket
            for i, sh in ((1, 1), (2, 2)):
                c = Market(i, _shared_rng(), None, "c%d" % (i - 1))
                c.setup({"tickSize": tick, "marketPrice": self.P0, "outstandingShares": sh})
                c._update_time(self.P0)
                c._is_running = True
                self.comps.append(c)
            sim = Simulator(prng=random.Random(0))  # a real simulator of this world's own, holding the components and the index market
            for c in self.comps:
                c.simulator = sim
                sim._add_market(c)
            m = IndexMarket(0, _shared_rng(), sim, "m", logger=self.lg)
            sim._add_market(m)
            m.setup({"tickSize": tick, "marketPrice": self.P0, "markets": [c.name for c in self.comps]})
        else:
            m = Market(0, _shared_rng(), _shared_sim(), "m", logger=self.lg)
            st = {"tickSize": tick, "marketPrice": self.P0}
            if shares is not None:
                st["outstandingShares"] = shares  # only a weight in index markets: says nothing about what may trade
            m.setup(st)
        if chunk:
            m.chunk_size = chunk
        m._update_time(self.P0)
        m._is_running = True
        self.m = m
        self.entries = []  # every accepted order object, in acceptance order
        self.by_id = {}  # id(order) -> Entry
        self.dead = False  # an exception escaped pams: state is broken, never expanded
        self.wit = Counter()
        self.monitors = monitors
        for mon in monitors:
            mon.start(self)

    def __getstate__(self):
        d = dict(self.__dict__)
        d.pop("by_id")
        return d

    def __setstate__(self, d):
        self.__dict__.update(d)
        self.by_id = {id(e.o): e for e in self.entries}

    def ent(self, o):
        return self.by_id[id(o)]

    # -- observation helpers ---------------------------------------------------------------
    def books(self):
        m = self.m
        return list(m.buy_order_book.priority_queue), list(m.sell_order_book.priority_queue)

    def live(self):
        b, a = self.books()
        return sorted(b + a, key=age_key)

    def live_ids(self):
        b, a = self.books()
        return set(id(o) for o in b + a)

    def dead_kind(self, e, live):
        if id(e.o) in live:
            return None
        if e.o.is_canceled:
            return "cancelled"
        if e.expired:
            return "expired"
        return "filled"

    def dead_kinds(self):
        live = self.live_ids()
        out = {}
        for e in self.entries:
            k = self.dead_kind(e, live)
            if k is not None and k not in out:
                out[k] = e
        return out

    # -- transitions -----------------------------------------------------------------------
    def _snap(self, sub):
        b, a = self.books()
        sub.pre_buy = [(o, o.volume) for o in b]
        sub.pre_sell = [(o, o.volume) for o in a]
        sub.time = self.m.time
        sub.running = self.m._is_running

    def _emit(self, sub, n0):
        sub.logged = self.lg.got[n0:]
        if sub.exc is not None:
            self.dead = True
        for mon in self.monitors:
            try:
                mon.on_sub(self, sub)
            except (Violation, common.HarnessError, Hang):
                raise
            except Exception as e:  # noqa
                import traceback
                tb = traceback.extract_tb(e.__traceback__)
                if any(fr.filename.startswith(common.REPO + "/") for fr in tb):
                    # a query the monitor makes on a state reached by valid operations raised inside pams
                    raise Violation("%s.api_raised" % mon.name, "a market query on a state reached by valid operations raised | %s: %s" % (
                        type(e).__name__, str(e)[:80]))
                raise

    def _round(self, op, implicit):
        sub = Sub("round", op)
        sub.implicit = implicit
        self._snap(sub)
        n0 = len(self.lg.got)
        try:
            sub.ret = self.m._execution()
        except Exception as e:  # noqa
            sub.exc = e
        if sub.ret:
            pre = {o.order_id: o for o, _ in sub.pre_buy + sub.pre_sell}
            for f in sub.ret:
                for oid in (f.buy_order_id, f.sell_order_id):
                    if oid in pre:
                        self.by_id[id(pre[oid])].fills += f.volume
        self._emit(sub, n0)

    def apply(self, op):
        """Apply one op.  Returns False if the op is not enabled in this state."""
        if self.dead:
            return False  # pams raised earlier on this history: the state is broken, nothing is applied to it
        m = self.m
        k = op[0]
        follow = False
        if k in ("L", "M"):
            sub = Sub("add", op)
            # every order comes from a different agent, with agent ids DEcreasing in submission order
            # (priority and prices must not depend on who submitted)
            aid = 1000 - len(self.entries)
            side = op[1]
            if self.shape == "npside":
                import numpy
                side = numpy.bool_(side)
            elif self.shape == "intside":
                side = int(side)
            if k == "L":
                o = Order(aid, 0, side, LIMIT_ORDER, op[3], price=float(op[2]), ttl=op[4])
                sub_price = float(op[2])
            else:
                o = Order(aid, 0, side, MARKET_ORDER, op[2], ttl=op[3])
                sub_price = None
            if self.shape == "copied" or (self.shape == "copied_odd" and len(self.entries) % 2 == 1):
                import copy
                o = copy.deepcopy(o)
            sub.order = o
            self._snap(sub)
            n0 = len(self.lg.got)
            try:
                sub.ret = m._add_order(o)
            except Exception as e:  # noqa
                sub.exc = e
            if sub.exc is None:
                e = Entry(o, len(self.entries))
                e.sub_price = sub_price
                e.acc_price = o.price
                self.entries.append(e)
                self.by_id[id(o)] = e
            self._emit(sub, n0)
            follow = True
        elif k in ("C", "CD", "CC"):
            if k in ("C", "CC"):
                lv = self.live()
                if op[1] >= len(lv):
                    return False
                o = lv[op[1]]
            else:
                dk = self.dead_kinds()
                if op[1] not in dk:
                    return False
                o = dk[op[1]].o
            sub = Sub("cancel", op)
            sub.order = o
            self._snap(sub)
            n0 = len(self.lg.got)
            try:
                if k == "CC":
                    # the cancel wraps an equal-valued COPY of the resting order (an agent that rebuilds the order from
                    # the record it was sent); the book must treat it like the order itself
                    import copy
                    oc = copy.copy(o)
                    sub.ret = m._cancel_order(Cancel(oc))
                    if oc.is_canceled:
                        o.is_canceled = True  # the harness' own bookkeeping reads the flag from the original object
                else:
                    sub.ret = m._cancel_order(Cancel(o))
            except Exception as e:  # noqa
                sub.exc = e
            ent = self.by_id[id(o)]
            if ent.cancel_time is None and sub.exc is None:
                ent.cancel_time = m.time
            self._emit(sub, n0)
            follow = True
        elif k == "DF":
            # a fill applied to ONE resting order through the order book's public interface (change_order_volume): the i-th
            # live order by age loses its whole volume ("all") or one unit ("one") -- whichever place it has in the queue
            lv = self.live()
            if op[1] >= len(lv):
                return False
            o = lv[op[1]]
            if op[2] == "one" and o.volume < 2:
                return False
            vol = o.volume if op[2] == "all" else 1
            sub = Sub("direct", op)
            sub.order = o
            self._snap(sub)
            n0 = len(self.lg.got)
            try:
                (m.buy_order_book if o.is_buy else m.sell_order_book).change_order_volume(o, -vol)
            except Exception as e:  # noqa
                sub.exc = e
            if sub.exc is None:
                self.by_id[id(o)].fills += vol
            self._emit(sub, n0)
        elif k in ("T", "J"):
            # T: one clock step (what the runner does); J: the clock set k steps ahead in one call (Market._set_time)
            sub = Sub("tick", op)
            self._snap(sub)
            n0 = len(self.lg.got)
            try:
                if k == "T":
                    for c in self.comps:
                        c._update_time(self.P0)
                    m._update_time(self.P0)
                else:
                    for c in self.comps:
                        c._set_time(c.time + op[1], self.P0)
                    m._set_time(m.time + op[1], self.P0)
            except Exception as e:  # noqa
                sub.exc = e
            live = self.live_ids()
            gone = [o for o, _ in sub.pre_buy + sub.pre_sell if id(o) not in live]
            for o in gone:
                self.by_id[id(o)].expired = True
            sub.ret = gone  # ground truth: orders that left the book at this clock advance
            self._emit(sub, n0)
        elif k == "V":
            # somebody looks at the book the way agents do (read-only views); nothing may change
            sub = Sub("view", op)
            self._snap(sub)
            n0 = len(self.lg.got)
            try:
                m.get_buy_order_book()
                m.get_sell_order_book()
                m.get_best_buy_price()
                m.get_best_sell_price()
                m.get_mid_price()
            except Exception as e:  # noqa
                sub.exc = e
            self._emit(sub, n0)
        elif k == "R":
            sub = Sub("flip", op)
            self._snap(sub)
            m._is_running = not m._is_running
            self._emit(sub, len(self.lg.got))
        elif k == "XC":
            if not self.comps:
                return False
            sub = Sub("flip_component", op)
            self._snap(sub)
            self.comps[0]._is_running = not self.comps[0]._is_running
            self._emit(sub, len(self.lg.got))
        elif k == "X":
            if self.mode != "free" or not m._is_running:
                return False
            self._round(op, False)
        elif k == "BAD":
            sub = Sub("bad", op)
            self._snap(sub)
            n0 = len(self.lg.got)
            before = self.canon()
            try:
                if op[1] == "resubmit":
                    if not self.entries:
                        return False
                    # prefer a live order, else any accepted one
                    lv = self.live()
                    o = lv[0] if lv else self.entries[0].o
                    sub.order = o
                    m._add_order(o)
                elif op[1] == "wrongmarket":
                    o = Order(0, 1, True, LIMIT_ORDER, 1, price=100.0)
                    sub.order = o
                    m._add_order(o)
                elif op[1] == "cancel_unsubmitted":
                    o = Order(0, 0, True, LIMIT_ORDER, 1, price=100.0)
                    sub.order = o
                    m._cancel_order(Cancel(o))
                elif op[1] == "cancel_wrongmarket":
                    o = Order(0, 1, True, LIMIT_ORDER, 1, price=100.0, placed_at=0, order_id=0)
                    sub.order = o
                    m._cancel_order(Cancel(o))
                else:
                    raise common.HarnessError("unknown bad op %r" % (op,))
            except common.HarnessError:
                raise
            except Exception as e:  # noqa
                sub.exc = e
            sub.ret = (before, self.canon())
            exc = sub.exc
            sub.exc = None  # an exception is the *expected* outcome here
            self._emit(sub, n0)
            sub.exc = exc
            for mon in self.monitors:
                mon.on_bad(self, sub, exc)
        else:
            raise common.HarnessError("unknown op %r" % (op,))
        if follow and self.mode == "cont" and m._is_running and not self.dead:
            self._round(op, True)
        return True

    # -- canonical form --------------------------------------------------------------------
    def canon(self):
        m = self.m
        now = m.time
        b, a = self.books()
        orders = tuple(
            (o.is_buy, o.kind.kind_id, o.price, o.volume, now - o.placed_at, o.ttl)
            for o in sorted(b + a, key=age_key))
        # hidden index structures, expressed relative to the book: for a correct implementation
        # they are functions of `orders`, so they never split a state; for a broken one they do.
        live = set(id(o) for o in b + a)

        def exp(book):
            return tuple(sorted((key - now, len(v), sum(1 for o in v if id(o) in live))
                                for key, v in book.expire_time_list.items()))

        def heap_ok(q):
            return all(not (K(q[i]) < K(q[(i - 1) // 2])) for i in range(1, len(q)))

        t = now

        def at(lst):
            return lst[t] if t < len(lst) else "?"

        core = (now, m._is_running, at(m._market_prices), at(m._last_executed_prices), at(m._mid_prices),
                at(m._executed_volumes), at(m._executed_total_prices), at(m._n_buy_orders),
                at(m._n_sell_orders), orders, exp(m.buy_order_book), exp(m.sell_order_book),
                heap_ok(b), heap_ok(a), m.buy_order_book.time, m.sell_order_book.time,
                tuple(sorted(self.dead_kinds())), tuple(c._is_running for c in self.comps))
        extra = tuple(mon.canon_extra(self) for mon in self.monitors)
        return (core, extra)


class Monitor:
    name = "?"

    def start(self, w):
        pass

    def on_sub(self, w, sub):
        pass

    def on_bad(self, w, sub, exc):
        pass

    def canon_extra(self, w):
        return ()


# ------------------------------------------------------------------------------------------------
# alphabets and seed books


def alphabet(prices=(99, 100, 101), vols=(1, 2), ttls=(None, 1), mvols=(1, 2), mttls=(None, 1),
             cancels=4, dead=("filled", "expired", "cancelled"), flip=True, tick=True, bad=()):
    ops = []
    if tick:
        ops.append(("T",))
    for b in (True, False):
        for p in prices:
            for v in vols:
                for ttl in ttls:
                    ops.append(("L", b, p, v, ttl))
    for b in (True, False):
        for v in mvols:
            for ttl in mttls:
                ops.append(("M", b, v, ttl))
    ops += [("C", i) for i in range(cancels)]
    ops += [("CD", k) for k in dead]
    ops.append(("X",))
    if flip:
        ops.append(("R",))
    ops += [("BAD", b) for b in bad]
    return ops


def L(b, p, v=1, ttl=None):
    return ("L", b, p, v, ttl)


def Mo(b, v=1, ttl=None):
    return ("M", b, v, ttl)


B, S = True, False

# (name, mode override or None, prelude, world kwargs)
SEED_BOOKS = {
    "empty": [],
    # a plain two-sided quote, never traded (market price follows the mid)
    "two_sided_no_trade": [L(B, 98, 1), L(S, 102, 1)],
    # quotes built while the market was NOT running (market price frozen at 100, mid 100.5), switched on, never traded
    "quoted_while_off": [("R",), L(B, 99, 1), L(S, 102, 1), ("R",)],
    # three-level two-sided book
    "deep": [L(B, 99, 1), L(B, 99, 2), L(B, 98, 1), L(S, 101, 1), L(S, 101, 2), L(S, 102, 1)],
    # one-sided ladders whose arrival order makes the heap array non-sorted (witness for a missing
    # heapify after a non-top removal: cancel the 99 / 101, then sweep two levels)
    "ladder_buy": [L(B, 95), L(B, 96), L(B, 98), L(B, 99), L(B, 100), L(B, 97)],
    "ladder_sell": [L(S, 105), L(S, 104), L(S, 102), L(S, 101), L(S, 100), L(S, 103)],
    # partially filled resting order
    "partial": [L(B, 100, 2), L(S, 100, 1), ("X",), L(S, 101, 2)],
    # crossed book accumulated while not running, then switched on again (nothing matched yet)
    "crossed_off": [("R",), L(B, 101, 2), L(B, 100, 1), L(S, 99, 1), L(S, 100, 2), ("R",)],
    # equal-time crossing pairs accumulated while not running (tie decided by id)
    "crossed_tie": [("R",), L(S, 99, 1), L(B, 101, 1), L(B, 100, 1), L(S, 100, 1), ("R",)],
    # crossed book whose first pair has the buy accepted earlier and whose last pair has the sell accepted earlier
    # (and the mirror image), with different limits in the last pair
    "crossed_flip": [("R",), L(B, 101, 1), L(S, 99, 1), L(S, 100, 1), L(B, 101, 1), ("R",)],
    "crossed_flip_mirror": [("R",), L(S, 99, 1), L(B, 101, 1), L(B, 100, 1), L(S, 99, 1), ("R",)],
    # market orders resting on one / both sides
    "mo_one": [Mo(B, 2), L(B, 99, 1)],
    "mo_both": [Mo(B, 2), Mo(S, 1), L(S, 100, 1)],
    "mo_both_eq": [("R",), Mo(B, 1), Mo(S, 1), L(B, 100, 1), L(S, 101, 1), ("R",)],
    # ... with limit orders about to expire resting behind the market orders of both sides
    "mo_both_ttl_behind": [Mo(B, 3), Mo(S, 3), L(S, 100, 1, 1), L(B, 99, 1, 1), ("X",)],  # seed books are built without automatic rounds: the explicit round lets the market look at this book once
    # orders about to expire on both sides, one of them partially filled
    "expiring": [L(B, 99, 2, 1), L(S, 101, 1, 1), L(B, 100, 2, 2), L(S, 100, 1, None), ("X",), Mo(S, 1, 1)],
    # two resting orders per side sharing one expiry time (one expiry bucket), one partially filled
    "same_expiry": [L(B, 99, 1, 2), L(B, 98, 2, 2), L(S, 101, 1, 2), L(S, 102, 2, 2), ("T",), L(B, 97, 1, 1), L(S, 103, 1, 1)],
    # time-to-live values registered in DEcreasing order of expiry on each side (a long-lived order first)
    "mixed_ttl": [L(B, 99, 1, 3), L(B, 98, 1, 1), L(S, 101, 1, 3), L(S, 102, 2, 1), L(B, 97, 1, 2)],
    # four fills in one round (book crossed during a not-running phase)
    # a market that has lived through 99 clock steps with its default storage chunk of 100: the next steps cross the
    # boundary at which its series are grown
    "step99": [L(B, 98, 2), L(S, 102, 1), L(B, 99, 1)] + [("T",)] * 49 + [L(S, 99, 1), L(S, 101, 2)] + [("T",)] * 50,
    "multi_fill": [("R",), L(B, 101, 1), L(B, 101, 1), L(B, 100, 2), L(S, 99, 1), L(S, 99, 2), L(S, 100, 1), ("R",)],
}
SEED_KW = {
    # last slot before a storage-chunk boundary with chunk_size lowered to 4 (public attribute)
    "chunk4": (dict(chunk=4), [L(B, 99, 1), ("T",), L(S, 101, 1, 2), ("T",), ("T",)]),
    "halftick": (dict(tick=0.5), [L(B, 99.5, 1), L(S, 100.5, 1)]),
    # decimal tick sizes (k*tick is not exactly representable): empty books on ticks 0.1 and 1e-5
    "tick01": (dict(tick=0.1), []),
    "tick1e5": (dict(tick=0.00001), []),
    # tick sizes that are not one digit times a power of ten
    # a market whose outstandingShares (an index weight) is smaller than the volumes traded on it
    "shares1": (dict(shares=1), [L(B, 99, 2), L(S, 101, 3)]),
    # order objects of other shapes (see World.__init__)
    "copied_orders": (dict(shape="copied"), []),
    "copied_odd_orders": (dict(shape="copied_odd"), []),
    "npside_orders": (dict(shape="npside"), []),
    "intside_orders": (dict(shape="intside"), []),
    "quartertick": (dict(tick=0.25), []),
    "tick2_5": (dict(tick=2.5), []),
    # the market under test is an IndexMarket (two components; op XC stops / restarts a component)
    "index": (dict(index=True), [L(B, 99, 1), L(S, 101, 1)]),
    "index_component_stopped": (dict(index=True), [("XC",), L(B, 99, 1), L(S, 101, 2, 2)]),
}


def seed_spec(name):
    if name in SEED_BOOKS:
        return {}, SEED_BOOKS[name]
    return SEED_KW[name]


# ------------------------------------------------------------------------------------------------
# search

_SPEC = None  # set in the parent before forking


class Spec:
    def __init__(self, mon_factory, mode, ops, seedname, canonical=True):
        self.mon_factory = mon_factory
        self.mode = mode
        self.ops = ops
        self.seedname = seedname
        self.kw, self.prelude = seed_spec(seedname)
        self.canonical = canonical


def build(spec, hist, upto=None):
    """Fresh world, prelude + history replayed.  Returns world or None if an op is not enabled.
    Violations raised by monitors propagate (with .at = index of the failing op)."""
    w = World(spec.mode, spec.mon_factory(), **spec.kw)
    for op in spec.prelude:
        # preludes are always applied with explicit rounds ("X" is its own op)
        mode = w.mode
        w.mode = "free"
        ok = w.apply(op)
        w.mode = mode
        if ok is False:
            raise common.HarnessError("prelude op %r of seed %s not enabled" % (op, spec.seedname))
    for i in hist:
        if w.dead:
            return None
        if w.apply(spec.ops[i]) is False:
            return None
    return w


def _expand(arg):
    chunk, last = arg
    spec = _SPEC
    out = []
    viol = []
    wit = Counter()
    ntrans = 0
    pruned = 0
    nops = len(spec.ops)
    local = set()
    signal.signal(signal.SIGALRM, _alarm)
    for hist in chunk:
        # the state itself was reached (and checked) before: rebuild it once, snapshot it, and
        # restore the snapshot for every outgoing operation
        try:
            base = build(spec, hist)
        except Violation as v:
            # should not happen (the state was checked when it was first reached); report it rather than crash
            viol.append((v.monitor, v.msg, hist))
            continue
        if base is None or base.dead:
            raise common.HarnessError("frontier state %r cannot be rebuilt" % (hist,))
        base.wit = Counter()
        blob = pickle.dumps(base, protocol=5)
        for oi in range(nops):
            nh = hist + (oi,)
            signal.setitimer(signal.ITIMER_REAL, 20.0)
            try:
                try:
                    w = pickle.loads(blob)
                    ok = w.apply(spec.ops[oi])
                finally:
                    signal.setitimer(signal.ITIMER_REAL, 0)
            except Violation as v:
                ntrans += 1
                viol.append((v.monitor, v.msg, nh))
                continue
            except Hang:
                ntrans += 1
                viol.append(("hang", "operation did not return within 20 s", nh))
                continue
            if ok is False:
                continue
            ntrans += 1
            wit.merge(w.wit)
            if w.dead:
                pruned += 1
                continue
            d = common.digest(w.canon()) if spec.canonical else nh
            if d in local:
                continue
            local.add(d)
            if not last:
                out.append((d, nh))
    if last:
        # final level: successor histories are not needed any more, only the distinct states
        out = (b"".join(local) if spec.canonical else len(local), hist + (0,) if chunk else None)
    return out, viol, wit, ntrans, pruned


def search(mon_factory, mode, ops, seedname, depth, seed=0, canonical=True, time_budget=None,
           keep_states=False, max_level_transitions=150_000_000):
    """Level-synchronous BFS.  Returns dict with states, transitions, violations, witness, ..."""
    global _SPEC
    spec = Spec(mon_factory, mode, ops, seedname, canonical)
    _SPEC = spec
    t0 = time.time()
    res = dict(seed_book=seedname, mode=mode, depth_target=depth, depth_completed=0, states=0,
               transitions=0, violations=[], witness=Counter(), pruned_exceptions=0, cap_hit=False,
               maximal=0, samples=[])
    try:
        w0 = build(spec, ())
    except Violation as v:
        res["violations"].append((v.monitor, v.msg, ()))
        return res
    if w0 is None:
        raise common.HarnessError("seed book %s cannot be built" % seedname)
    if w0.dead:
        # pams raised on a valid operation of the prelude and this check does not own that exception
        # (the owning check reports it): the seed book is skipped and counted
        res["pruned_exceptions"] += 1
        res["seed_unbuildable"] = True
        return res
    res["witness"].merge(w0.wit)
    seen = {common.digest(w0.canon()) if canonical else ()}
    frontier = [()]
    allstates = [()] if keep_states else None
    for d in range(depth):
        if not frontier:
            break
        if time_budget is not None and time.time() - t0 > time_budget:
            res["cap_hit"] = True
            break
        if len(frontier) * len(ops) > max_level_transitions:
            res["cap_hit"] = True
            res["cap"] = "level %d would need %d transitions (> %d)" % (d + 1, len(frontier) * len(ops), max_level_transitions)
            break
        frontier = common.rotate(frontier, seed)
        nchunks = max(1, min(len(frontier), common.NPROC * 6, max(common.NPROC, len(frontier) // 50)))
        last = (d == depth - 1) and not keep_states
        chunks = [(frontier[i::nchunks], last) for i in range(nchunks)]
        results = common.pool_map(_expand, chunks)
        nxt = []
        cand = []
        n_last = 0
        sample_last = []
        for out, viol, wit, ntrans, pruned in results:
            res["transitions"] += ntrans
            res["pruned_exceptions"] += pruned
            res["witness"].merge(wit)
            for v in viol:
                res["violations"].append(v)
            if last:
                blob, smp = out
                if smp is not None and len(sample_last) < 3:
                    sample_last.append(smp)
                if isinstance(blob, int):
                    n_last += blob
                else:
                    for i in range(0, len(blob), 12):
                        dg = blob[i:i + 12]
                        if dg not in seen:
                            seen.add(dg)
                            n_last += 1
            else:
                cand.extend(out)
        if last:
            res["depth_completed"] = d + 1
            res["maximal"] = n_last
            res["states"] = len(seen) if canonical else len(seen) + n_last
            res["samples"] = [[spec.ops[i] for i in h] for h in sample_last]
            res["wall_s"] = round(time.time() - t0, 1)
            return res
        cand.sort(key=lambda x: x[1])  # deterministic choice of the representative history
        for dg, nh in cand:
            if dg not in seen:
                seen.add(dg)
                nxt.append(nh)
        frontier = nxt
        if keep_states:
            allstates.extend(nxt)
        res["depth_completed"] = d + 1
    res["states"] = len(seen)
    res["maximal"] = len(frontier)
    res["samples"] = [[spec.ops[i] for i in h] for h in frontier[:: max(1, len(frontier) // 3)][:3]]
    res["wall_s"] = round(time.time() - t0, 1)
    if keep_states:
        res["all_states"] = allstates
        res["seen"] = seen
    return res


def replay_history(mon_factory, mode, ops_list, seedname, verbose=True):
    """Re-execute one history without the explorer; print every step; return Violation or None."""
    spec = Spec(mon_factory, mode, ops_list, seedname)
    w = World(spec.mode, spec.mon_factory(), **spec.kw)
    try:
        for op in spec.prelude:
            mode_ = w.mode
            w.mode = "free"
            w.apply(tuple(op))
            w.mode = mode_
        if verbose:
            print("seed book %s (%d prelude ops), mode %s" % (seedname, len(spec.prelude), mode))
            print("  book:", describe_book(w))
        for i, op in enumerate(ops_list):
            op = tuple(op)
            ok = w.apply(op)
            if verbose:
                print("  step %d: %r%s" % (i, op, "" if ok is not False else "  (not enabled)"))
                print("     book:", describe_book(w))
    except Violation as v:
        if verbose:
            print("  ==> VIOLATION %s: %s" % (v.monitor, v.msg))
        return v
    return None


def describe_book(w):
    m = w.m
    b, a = w.books()

    def f(o):
        return "%s#%s %s@%s v%s t%s ttl%s" % ("B" if o.is_buy else "S", o.order_id,
                                               "MKT" if o.price is None else "LMT", o.price, o.volume,
                                               o.placed_at, o.ttl)

    return "t=%d run=%s mp=%s last=%s mid=%s | %s | %s" % (
        m.time, m._is_running, m._market_prices[m.time], m._last_executed_prices[m.time],
        m._mid_prices[m.time], [f(o) for o in sorted(b, key=K)], [f(o) for o in sorted(a, key=K)])


# ------------------------------------------------------------------------------------------------
# generic driver used by the Engine-M property modules


def run_m_check(res, mon_factory, plan, ops_by_name, seed, owner_of_exceptions=(), xcheck_depth=0,
                required_witness=()):
    """plan: list of (seedname, mode, depth, alphabet-name).  Fills res (common.Result)."""
    tot_states = tot_trans = tot_max = 0
    wit = Counter()
    runs = []
    samples = []
    pruned = 0
    for seedname, mode, depth, aname in plan:
        ops = ops_by_name[aname]
        if mode == "cont":
            ops = [o for o in ops if o[0] != "X"]
        r = search(mon_factory, mode, ops, seedname, depth, seed=seed)
        tot_states += r["states"]
        tot_trans += r["transitions"]
        tot_max += r["maximal"]
        pruned += r["pruned_exceptions"]
        wit.merge(r["witness"])
        runs.append(dict(seed_book=seedname, mode=mode, alphabet=aname, n_ops=len(ops),
                         depth_completed=r["depth_completed"], states=r["states"],
                         transitions=r["transitions"], wall_s=r.get("wall_s")))
        for s in r["samples"][:1]:
            samples.append(dict(seed_book=seedname, mode=mode, history=s))
        first = {}
        for mon, msg, nh in r["violations"]:
            key = (mon, msg.split(" | ")[0])
            if key not in first or len(nh) < len(first[key][2]):
                first[key] = (mon, msg, nh)
        for (mon, cls), (_, msg, nh) in sorted(first.items()):
            hist = [ops[i] for i in nh]
            sig = "%s:%s" % (mon, cls.replace(" ", "_")[:60])
            res.add_violation(mon, msg, sig, dict(engine="M", seed_book=seedname, mode=mode,
                                                 history=hist, alphabet=aname))
    cov = res.coverage
    cov["states"] = cov.get("states", 0) + tot_states
    cov["transitions"] = cov.get("transitions", 0) + tot_trans
    cov["traces_validated_against_impl"] = cov.get("traces_validated_against_impl", 0) + tot_max
    cov["engine_m_runs"] = runs
    cov["pruned_exceptions_not_owned"] = pruned
    cov.setdefault("samples", []).extend(samples[:6])
    w = cov.setdefault("witness_classes", {})
    for k, v in wit.items():
        w[k] = w.get(k, 0) + v
    if xcheck_depth:
        # canonicalisation cross-check: same search with state = history (no merging)
        seedname, mode, _, aname = plan[0]
        ops = ops_by_name[aname]
        if mode == "cont":
            ops = [o for o in ops if o[0] != "X"]
        a = search(mon_factory, mode, ops, seedname, xcheck_depth, seed=seed, keep_states=True)
        b = search(mon_factory, mode, ops, seedname, xcheck_depth, seed=seed, canonical=False,
                   keep_states=True)
        global _SPEC
        spec = Spec(mon_factory, mode, ops, seedname)

        def abstract(hists):
            out = set()
            for h in hists:
                try:
                    w_ = build(spec, h)
                except Violation:
                    continue
                if w_ is not None and not w_.dead:
                    out.add(common.digest(w_.canon()))
            return out

        sa = a["seen"]
        sb = abstract(b["all_states"])
        va = set((m_, msg.split(" | ")[0]) for m_, msg, _ in a["violations"])
        vb = set((m_, msg.split(" | ")[0]) for m_, msg, _ in b["violations"])
        cov["canonicalisation_crosscheck"] = dict(depth=xcheck_depth, abstract_states=len(sa),
                                                  histories=len(b["all_states"]),
                                                  same_states=(sa == sb), same_verdicts=(va == vb))
        if sa != sb or va != vb:
            res.harness_errors.append("canonicalisation cross-check failed: %d vs %d abstract states, verdicts %s vs %s" % (
                len(sa), len(sb), sorted(va), sorted(vb)))
    res.require_witness(required_witness)
    return res
