"""Child process of the C07 check.  Runs every configuration of the family with every seed under one
ambient perturbation and prints {"<config>#<seed>": digest} as JSON on the last stdout line.

usage: python -m vf.c07_child <mode> <seeds comma separated>
mode: plain | perturb_a | perturb_b | prior_run | prior_namesake | twice | reuse | trap | logger_none | logger_base | logger_saver | logger_peek | via_file"""
import copy
import glob
import hashlib
import json
import os
import random
import sys
import time
import traceback

from . import common

common.import_pams()
import numpy as np  # noqa: E402
from pams import Market  # noqa: E402
from pams.agents import Agent, FCNAgent  # noqa: E402
from pams.events import EventABC, EventHook  # noqa: E402
from pams.logs.base import Logger  # noqa: E402
from pams.logs.market_step_loggers import MarketStepSaver  # noqa: E402
from pams.runners.sequential import SequentialRunner  # noqa: E402

CUR = None  # hashlib object of the run in progress


class ExtendedMarket(Market):  # user class of samples/market_share
    def setup(self, settings, *args, **kwargs):
        super().setup(settings, *args, **kwargs)
        if "tradeVolume" in settings:
            self._executed_volumes = [int(settings["tradeVolume"])]


class UserDefinedFCNAgent(FCNAgent):  # user class of samples/user_class
    pass


class UserEffectEvent(EventABC):
    """user event: every hook type, each call nudges the target market's fundamental price (so a hook
    call that is skipped, repeated or made conditionally on something outside the configuration shows)"""

    def setup(self, settings, *a, **k):
        self.target = self.simulator.name2market[settings["target"]]
        self.n = 0

    def hook_registration(self):
        hs = [EventHook(self, t, b) for t in ("order", "cancel", "session", "market") for b in (True, False)]
        hs.append(EventHook(self, "execution", False))
        return hs

    def _nudge(self, k):
        self.n += 1
        # the size of the nudge comes from the event's OWN generator (handed to it by the runner)
        self.target.change_fundamental_price(1.0 + (k + self.n % 3 + self.prng.random()) * 1e-4)

    def hooked_before_order(self, simulator, order):
        self._nudge(1)

    def hooked_after_order(self, simulator, order_log):
        self._nudge(2)

    def hooked_before_cancel(self, simulator, cancel):
        self._nudge(3)

    def hooked_after_cancel(self, simulator, cancel_log):
        self._nudge(4)

    def hooked_after_execution(self, simulator, execution_log):
        self._nudge(5)

    def hooked_before_session(self, simulator, session):
        self._nudge(6)

    def hooked_after_session(self, simulator, session):
        self._nudge(7)

    def hooked_before_step_for_market(self, simulator, market):
        self._nudge(8)

    def hooked_after_step_for_market(self, simulator, market):
        self._nudge(9)


def _fmt(v):
    if isinstance(v, (int, float, str, bool, type(None))):
        return repr(v)
    if hasattr(v, "kind_id"):
        return "kind%d" % v.kind_id
    return type(v).__name__


class RecLogger(Logger):
    def write(self, log):
        d = {k: _fmt(v) for k, v in vars(log).items() if k not in ("simulator",)}
        for k in ("session", "market"):
            if hasattr(log, k):
                o = getattr(log, k)
                d[k] = getattr(o, "name", None)
                if k == "market":
                    d["t"] = o.get_time()
        CUR.update((type(log).__name__ + json.dumps(d, sort_keys=True)).encode())
        super().write(log)

    def write_and_direct_process(self, log):
        d = {}
        for k in ("session", "market"):
            if hasattr(log, k):
                o = getattr(log, k)
                d[k] = getattr(o, "name", None)
                if k == "market":
                    d.update(t=o.get_time(), p=repr(o.get_market_price()), f=repr(o.get_fundamental_price()))
        CUR.update(("D" + type(log).__name__ + json.dumps(d, sort_keys=True)).encode())
        super().write_and_direct_process(log)


class PeekLogger(RecLogger):
    """a logger that looks around whenever it is handed a record: read-only queries (current and past values of every
    market, its book, and -- in configurations without fundamental shocks -- the fundamental generator 150 to 350 steps
    ahead, which the generator's own API permits) must not change what happens"""
    lookahead = True

    def _peek(self, log):
        sim = getattr(log, "simulator", None)
        if sim is None:
            mk = getattr(log, "market", None)
            sim = getattr(mk, "simulator", None)
        if sim is None:
            sim = getattr(self, "_sim", None)
        if sim is None:
            return
        self._sim = sim
        def q(f, *a):
            try:
                f(*a)  # a query refused at this moment (e.g. in the middle of a clock advance) is not a change
            except Exception:  # noqa
                pass
        self.npeek = getattr(self, "npeek", -1) + 1
        for m in sim.markets:
            t = m.get_time()
            if t < 0:
                if self.lookahead and not hasattr(m, "get_index"):
                    q(sim.fundamentals.get_fundamental_price, m.market_id, 250)
                continue
            for g in ("get_market_price", "get_mid_price", "get_best_buy_price", "get_best_sell_price", "get_fundamental_price",
                      "get_last_executed_price", "get_executed_volume", "get_vwap", "get_buy_order_book", "get_sell_order_book"):
                q(getattr(m, g))
            q(m.get_market_prices, range(0, t + 1))
            q(m.get_fundamental_prices, range(0, t + 1))
            if hasattr(m, "get_index"):
                q(m.get_index)
                q(m.get_fundamental_index)
                q(m.get_index, 0)
            elif self.lookahead:
                # far enough ahead to span more than one generation chunk (100 steps) beyond what exists
                q(sim.fundamentals.get_fundamental_price, m.market_id, t + 150 + 100 * (self.npeek % 3))
        for a in sim.agents:
            q(a.get_cash_amount)
            for mid in list(a.asset_volumes):
                q(a.get_asset_volume, mid)

    def write(self, log):
        self._peek(log)
        super().write(log)

    def write_and_direct_process(self, log):
        self._peek(log)
        super().write_and_direct_process(log)


def patch_callbacks():
    """every agent notification of every (built-in) agent goes into the digest"""
    for name in ("submitted_order", "executed_order", "canceled_order"):
        orig = getattr(Agent, name)

        def wrapped(self, log, _orig=orig, _name=name):
            CUR.update(("CB%s:%d:" % (_name, self.agent_id) + json.dumps({k: _fmt(v) for k, v in vars(log).items()}, sort_keys=True)).encode())
            return _orig(self, log)
        setattr(Agent, name, wrapped)


# ------------------------------------------------------------------------------------------------ family


def S(name, steps, pl, ex, **k):
    d = dict(sessionName=name, iterationSteps=steps, withOrderPlacement=pl, withOrderExecution=ex, withPrint=False)
    d.update(k)
    return d


FCN = {"fundamentalWeight": {"expon": [1.0]}, "chartWeight": {"expon": [0.2]}, "noiseWeight": {"expon": [1.0]}, "noiseScale": 0.001,
       "timeWindowSize": [3, 6], "orderMargin": [0.0, 0.1]}


def family():
    fam = {}
    fam["two_groups"] = {
        "simulation": {"markets": ["MA", "MB"], "agents": ["T", "Sh", "F"], "sessions": [S(0, 5, True, False, maxNormalOrders=3), S(1, 10, True, True, maxNormalOrders=3)]},
        "MA": {"class": "Market", "tickSize": 0.01, "marketPrice": 300.0, "fundamentalVolatility": 0.001},
        "MB": {"class": "Market", "tickSize": 0.01, "marketPrice": 300.0, "fundamentalVolatility": 0.001},
        "T": {"class": "TestAgent", "numAgents": 3, "markets": ["MA", "MB"], "cashAmount": [1000, 2000], "assetVolume": [10, 50]},
        "Sh": dict({"class": "MarketShareFCNAgent", "numAgents": 3, "markets": ["MA", "MB"], "cashAmount": 10000, "assetVolume": [10, 50]}, **FCN),
        "F": dict({"class": "FCNAgent", "numAgents": 3, "markets": ["MA", "MB"], "cashAmount": 10000, "assetVolume": [10, 50]}, **FCN)}
    events = {
        "FShock": {"class": "FundamentalPriceShock", "target": "A", "triggerTime": 2, "priceChangeRate": -0.1, "shockTimeLength": 2},
        "Limit": {"class": "PriceLimitRule", "targetMarkets": ["A", "B"], "triggerChangeRate": 0.05},
        "Halt": {"class": "TradingHaltRule", "targetMarkets": ["A"], "triggerChangeRate": 0.02, "haltingTimeLength": 2},
        "Mistake": {"class": "OrderMistakeShock", "target": "B", "triggerTime": 3, "priceChangeRate": -0.05, "orderVolume": 20, "orderTimeLength": 4},
        "UserEv": {"class": "UserEffectEvent", "target": "A"},
    }

    def all_types(evs):
        cfg = {
            "simulation": {"markets": ["A", "B", "I"], "agents": ["FA", "FN", "Sh", "MM", "Arb", "T"],
                           "sessions": [S(0, 4, True, False, maxNormalOrders=4, maxHighFrequencyOrders=0),
                                        S(1, 10, True, True, maxNormalOrders=4, maxHighFrequencyOrders=2, highFrequencySubmitRate=0.7, events=list(evs))],
                           "fundamentalCorrelations": {"pairwise": [["A", "B", 0.6]]}},
            "Spot": {"class": "Market", "tickSize": 0.01, "marketPrice": 300.0, "outstandingShares": 2000, "fundamentalVolatility": 0.002,
                     "fundamentalDrift": 0.0001},
            "A": {"extends": "Spot"}, "B": {"extends": "Spot", "marketPrice": 310.0},
            "I": {"class": "IndexMarket", "tickSize": 0.01, "marketPrice": 305.0, "outstandingShares": 2000, "markets": ["A", "B"]},
            "FA": dict({"class": "FCNAgent", "numAgents": 4, "markets": ["A", "B", "I"], "cashAmount": {"uniform": [5000, 20000]},
                        "assetVolume": {"normal": [50, 5]}}, **FCN),
            "FN": dict({"class": "FCNAgent", "numAgents": 2, "markets": ["I", "A"], "cashAmount": {"const": [10000]}, "assetVolume": [10, 50],
                        "marginType": "normal"}, **dict(FCN, orderMargin=0.5)),
            "Sh": dict({"class": "MarketShareFCNAgent", "numAgents": 3, "markets": ["A", "B"], "cashAmount": 10000, "assetVolume": [10, 50]}, **FCN),
            "MM": {"class": "MarketMakerAgent", "numAgents": 2, "markets": ["A", "B"], "cashAmount": 10000, "assetVolume": 50, "targetMarket": "A",
                   "netInterestSpread": [0.01, 0.03], "orderTimeLength": 2},
            "Arb": {"class": "ArbitrageAgent", "numAgents": 2, "markets": ["I", "A", "B"], "cashAmount": 150000, "assetVolume": 50, "orderVolume": 1,
                    "orderThresholdPrice": 0.5},
            "T": {"class": "TestAgent", "numAgents": 2, "markets": ["B", "A"], "cashAmount": [1000, 2000], "assetVolume": [10, 50]},
        }
        for e in evs:
            cfg[e] = events[e]
        return cfg

    fam["all_types:none"] = all_types([])
    # the same markets, volatilities and agents WITHOUT fundamental correlations (sorted before/after its
    # correlated twin depending on the run order of the perturbation)
    nocorr = all_types([])
    del nocorr["simulation"]["fundamentalCorrelations"]
    fam["all_types:nocorr"] = nocorr
    fam["zz_all_types:nocorr_again"] = copy.deepcopy(nocorr)
    fam["all_types:UserEv"] = all_types(["UserEv"])
    fam["all_types:Halt+UserEv"] = all_types(["Halt", "UserEv"])
    names = sorted(e for e in events if e != "UserEv")
    for e in names:
        fam["all_types:%s" % e] = all_types([e])
    for i, a in enumerate(names):
        for b in names[i + 1:]:
            fam["all_types:%s+%s" % (a, b)] = all_types([a, b])
    fam["all_types:all"] = all_types(names)
    # rules whose target lists name several markets in an order that is neither the declaration order nor alphabetical
    # (the caller's lists must come back as they were handed over)
    unsorted = all_types([])
    unsorted["HaltU"] = {"class": "TradingHaltRule", "targetMarkets": ["I", "B", "A"], "triggerChangeRate": 0.02, "haltingTimeLength": 2}
    unsorted["LimitU"] = {"class": "PriceLimitRule", "targetMarkets": ["B", "I", "A"], "triggerChangeRate": 0.05}
    unsorted["simulation"]["sessions"][1]["events"] = ["LimitU", "HaltU"]
    fam["all_types:unsorted_target_lists"] = unsorted
    # agents listing several market groups (count + range) in an order different from the declaration order
    fam["multi_group"] = {
        "simulation": {"markets": ["G0", "G1", "G2"], "agents": ["X", "Y"], "sessions": [S(0, 8, True, True, maxNormalOrders=3)]},
        "G0": {"class": "Market", "tickSize": 0.5, "marketPrice": 100.0, "numMarkets": 2, "fundamentalVolatility": 0.01},
        "G1": {"class": "Market", "tickSize": 0.5, "marketPrice": 120.0, "from": 3, "to": 4},
        "G2": {"class": "Market", "tickSize": 1.0, "marketPrice": 90.0},
        "X": {"class": "TestAgent", "numAgents": 3, "markets": ["G2", "G0", "G1"], "cashAmount": [1000, 2000], "assetVolume": [10, 50]},
        "Y": dict({"class": "FCNAgent", "from": 0, "to": 1, "markets": ["G1", "G0"], "cashAmount": 10000, "assetVolume": [10, 50]}, **FCN)}
    # groups that extend other LISTED groups which declare their own count / id range
    fam["extends_listed_groups"] = {
        "simulation": {"markets": ["Base", "More"], "agents": ["Fa", "Fb", "Tc"], "sessions": [S(0, 3, True, False, maxNormalOrders=3), S(1, 6, True, True, maxNormalOrders=3)]},
        "Base": {"class": "Market", "tickSize": 0.5, "marketPrice": 100.0, "from": 0, "to": 1, "fundamentalVolatility": 0.01},
        "More": {"extends": "Base", "from": 2, "to": 2, "marketPrice": 120.0},
        "Fa": dict({"class": "FCNAgent", "from": 0, "to": 2, "markets": ["Base", "More"], "cashAmount": 10000, "assetVolume": [10, 50]}, **FCN),
        "Fb": {"extends": "Fa", "from": 3, "to": 4, "cashAmount": [5000, 6000]},
        "Tc": {"class": "TestAgent", "numAgents": 2, "markets": ["More", "Base"], "cashAmount": [1000, 2000], "assetVolume": [10, 50]}}
    return fam


def shrink(cfg):
    cfg = copy.deepcopy(cfg)
    for k, v in cfg.items():
        if isinstance(v, dict) and "numAgents" in v:
            v["numAgents"] = min(v["numAgents"], 6)
    for s, n in zip(cfg["simulation"]["sessions"], (4, 12)):
        s["iterationSteps"] = min(s["iterationSteps"], n)
        s["withPrint"] = False
    for k, v in cfg.items():
        if isinstance(v, dict) and "triggerTime" in v:
            v["triggerTime"] = min(v["triggerTime"], 3)
        if isinstance(v, dict) and "timeWindowSize" in v:
            v["timeWindowSize"] = [3, 6]
    return cfg


def sample_family():
    fam = {}
    for path in sorted(glob.glob(os.path.join(common.REPO, "samples", "*", "config*.json"))):
        name = "sample:%s/%s" % (os.path.basename(os.path.dirname(path)), os.path.basename(path))
        fam[name] = shrink(json.load(open(path)))
    return fam


def full_family():
    fam = family()
    fam.update(sample_family())
    return fam


# ------------------------------------------------------------------------------------------------ one run


LOGGER = "rec"  # rec | none | base | saver


VIA_FILE = None  # path: the configuration is written to this ONE file (rewritten for every run) and given as a path


def namesakes():
    """other user classes carrying the SAME names as the three user classes above and behaving differently (a class
    redefined between two runs: a notebook cell run again, a factory building one class per sweep point)"""
    class _Ev(UserEffectEvent):
        def _nudge(self, k):
            self.n += 1
            self.target.change_fundamental_price(1.0 + (k + 1) * 1e-2)

    class _Ag(FCNAgent):
        def submit_orders(self, markets):
            return []

    class _Mk(Market):
        pass
    out = []
    for c, n in ((_Mk, "ExtendedMarket"), (_Ag, "UserDefinedFCNAgent"), (_Ev, "UserEffectEvent")):
        c.__name__ = c.__qualname__ = n
        out.append(c)
    return out


USER_CLASSES = None  # None = the three module-level user classes


def run_one(cfg, seed, settings_obj=None):
    """-> (digest of everything observable incl. every log record and callback, settings mutated?,
    digest of the end state only: comparable between runs with different loggers attached)"""
    global CUR
    CUR = hashlib.sha256()
    settings = settings_obj if settings_obj is not None else copy.deepcopy(cfg)
    before = copy.deepcopy(settings)
    lg = {"rec": RecLogger, "none": lambda: None, "base": Logger, "saver": MarketStepSaver, "peek": PeekLogger}[LOGGER]()
    if LOGGER == "peek":
        # a fundamental shock rewinds the generator to the shock time, so anything generated ahead of it is drawn
        # again: looking far ahead is then not a read-only act even on the unchanged tree (and outside this property)
        lg.lookahead = not any(isinstance(v, dict) and v.get("class") in ("FundamentalPriceShock", "UserEffectEvent") for v in cfg.values())
    if VIA_FILE is not None:
        with open(VIA_FILE, "w") as f:
            json.dump(settings, f)
        r = SequentialRunner(VIA_FILE, random.Random(seed), lg)
    else:
        r = SequentialRunner(settings, random.Random(seed), lg)
    for c in (USER_CLASSES or (ExtendedMarket, UserDefinedFCNAgent, UserEffectEvent)):
        r.class_register(c)
    r._setup()
    r._run()
    sim = r.simulator
    st = hashlib.sha256()
    for m in sim.markets:
        x = repr((m.name, m.get_market_prices(), m.get_fundamental_prices(), m.get_executed_volumes(), m.get_mid_prices(),
                  m.get_last_executed_prices(), m.get_executed_total_prices(), m.get_n_buy_orders(), m.get_n_sell_orders())).encode()
        CUR.update(x)
        st.update(x)
    for a in sim.agents:
        x = repr((a.name, a.cash_amount, sorted(a.asset_volumes.items()))).encode()
        CUR.update(x)
        st.update(x)
    mutated = settings != before
    return CUR.hexdigest()[:20], mutated, st.hexdigest()[:20]


TRAPPED = []


def install_traps():
    def trap(name):
        def f(*a, **k):
            st = traceback.extract_stack(limit=10)
            where = [("%s:%d" % (x.filename.split("/pams/")[-1], x.lineno)) for x in st[:-1] if "/pams/" in x.filename][-2:]
            TRAPPED.append((name, where))
            raise RuntimeError("ambient source used: %s at %s" % (name, where))
        return f
    import random as R
    for fn in ("random", "uniform", "randint", "choice", "choices", "sample", "shuffle", "gauss", "normalvariate", "expovariate",
               "randrange", "getrandbits", "seed", "betavariate", "triangular", "lognormvariate", "paretovariate"):
        setattr(R, fn, trap("random." + fn))
    for fn in ("rand", "randn", "random", "normal", "uniform", "randint", "choice", "shuffle", "permutation", "seed",
               "standard_normal", "random_sample", "exponential", "lognormal"):
        setattr(np.random, fn, trap("numpy.random." + fn))
    orig_rng = np.random.default_rng

    def rng(seed=None, *a, **k):
        if seed is None:
            return trap("numpy.random.default_rng() without seed")()
        return orig_rng(seed, *a, **k)
    np.random.default_rng = rng
    o_seed = R.Random.seed

    def seed(self, a=None, *x, **k):
        if a is None:
            trap("random.Random() without seed")()
        return o_seed(self, a, *x, **k)
    R.Random.seed = seed
    os.urandom = trap("os.urandom")
    for fn in ("time", "time_ns", "perf_counter", "monotonic", "perf_counter_ns", "monotonic_ns", "process_time"):
        setattr(time, fn, trap("time." + fn))


def main():
    global LOGGER
    mode = sys.argv[1]
    if mode.startswith("logger_"):
        LOGGER = mode[len("logger_"):]
    if mode == "via_file":
        import tempfile
        global VIA_FILE
        VIA_FILE = os.path.join(tempfile.mkdtemp(prefix="vf-c07-"), "config.json")
    seeds = [int(x) for x in sys.argv[2].split(",")]
    only = sys.argv[3].split("|") if len(sys.argv) > 3 and sys.argv[3] else None
    fam = full_family()
    if only:
        fam = {k: v for k, v in fam.items() if k in only}
    patch_callbacks()
    out = {}
    if mode == "perturb_a":
        random.seed(12345)
        [random.random() for _ in range(100)]
        np.random.seed(7)
        np.random.rand(10)
    elif mode == "perturb_b":
        random.seed(999)
        [random.gauss(0, 1) for _ in range(31)]
        np.random.seed(5)
        np.random.standard_normal(3)
    elif mode == "trap":
        install_traps()
    names = sorted(fam)
    if mode == "prior_run":
        names = names[::-1]  # every run is preceded by different runs in the same process
        run_one(fam["two_groups"] if "two_groups" in fam else fam[names[0]], 77)
    if mode == "prior_namesake":
        # every configuration that names a user class was run before, in this process, by a runner that had registered
        # DIFFERENT classes under those names
        global USER_CLASSES
        USER_CLASSES = namesakes()
        for name in names:
            if any(isinstance(v, dict) and v.get("class") in ("ExtendedMarket", "UserDefinedFCNAgent", "UserEffectEvent") for v in fam[name].values()):
                try:
                    run_one(fam[name], 5)
                except Exception:  # noqa
                    pass
        USER_CLASSES = None
    for name in names:
        cfg = fam[name]
        for seed in seeds:
            key = "%s#%d" % (name, seed)
            try:
                if mode == "twice":
                    d1, m1, s1 = run_one(cfg, seed)
                    d2, m2, s2 = run_one(cfg, seed)
                    out[key] = [d1 if d1 == d2 else "DIFF:%s/%s" % (d1, d2), m1 or m2, s1]
                elif mode == "reuse":
                    obj = copy.deepcopy(cfg)
                    d1, m1, s1 = run_one(cfg, seed, settings_obj=obj)
                    d2, m2, s2 = run_one(cfg, seed, settings_obj=obj)
                    out[key] = [d1 if d1 == d2 else "DIFF:%s/%s" % (d1, d2), m1 or m2, s1]
                else:
                    d, m, st = run_one(cfg, seed)
                    out[key] = [d, m, st]
            except Exception as e:  # noqa
                out[key] = ["EXC:%s:%s" % (type(e).__name__, str(e)[:160]), False, "EXC"]
    if VIA_FILE is not None:
        import shutil
        shutil.rmtree(os.path.dirname(VIA_FILE), ignore_errors=True)
    print("C07CHILD " + json.dumps(out, sort_keys=True))


if __name__ == "__main__":
    main()
