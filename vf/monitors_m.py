"""Engine-M monitors: the property statements of C01-C04, C08 (and the market-level half of C10)
turned into predicates over one transition of a real Market.  No second matching implementation:
ledgers / price state machines are *fed with the implementation's own fills*."""
import heapq
import numbers
import math

from .common import Violation
from .explore_m import K, Monitor, age_key

from pams.logs.base import CancelLog, ExecutionLog, ExpirationLog, OrderLog  # noqa: E402
from pams.order import LIMIT_ORDER, MARKET_ORDER  # noqa: E402


def V(cond, mon, msg, detail=""):
    if not cond:
        raise Violation(mon, msg + (" | " + detail if detail else ""))


def fmt(o):
    return "%s#%s %s v%s t%s" % ("B" if o.is_buy else "S", o.order_id, o.price, o.volume, o.placed_at)


# =================================================================================================
class C01Mon(Monitor):
    name = "C01"

    def on_sub(self, w, sub):
        if sub.kind != "round" or sub.exc is not None or not sub.ret:
            return
        fills = sub.ret
        buys = {o.order_id: (o, v) for o, v in sub.pre_buy}
        sells = {o.order_id: (o, v) for o, v in sub.pre_sell}
        w.wit.inc("round_with_fills")
        prices = set(f.price for f in fills)
        V(len(prices) == 1, "C01.one_price", "fills of one matching round carry several prices",
          "prices=%s" % sorted(prices))
        for f in fills:
            V(f.buy_order_id in buys and f.sell_order_id in sells, "C01.pairing",
              "fill does not pair a resting buy with a resting sell of this market")
            V(f.market_id == w.m.market_id, "C01.pairing", "fill names another market")
            bo, so = buys[f.buy_order_id][0], sells[f.sell_order_id][0]
            V(bo.is_buy and not so.is_buy, "C01.pairing", "fill sides are wrong")
            V(isinstance(f.volume, numbers.Integral) and f.volume > 0, "C01.volume", "fill volume not positive")
            if bo.kind == LIMIT_ORDER:
                V(f.price <= bo.price, "C01.buy_limit", "fill price above the buyer's limit",
                  "price=%s buy=%s" % (f.price, fmt(bo)))
            if so.kind == LIMIT_ORDER:
                V(f.price >= so.price, "C01.sell_limit", "fill price below the seller's limit",
                  "price=%s sell=%s" % (f.price, fmt(so)))
            # ... and the limits as the submitters stated them (an off-grid limit is accepted on the grid; whatever
            # the book did with it, the trade must not be worse for its owner than the price it asked for)
            sb, ss = w.ent(bo).sub_price, w.ent(so).sub_price
            if sb is not None:
                V(f.price <= sb, "C01.buy_limit_submitted", "fill price above the limit the buyer submitted",
                  "price=%s submitted=%s accepted as %s" % (f.price, sb, fmt(bo)))
            if ss is not None:
                V(f.price >= ss, "C01.sell_limit_submitted", "fill price below the limit the seller submitted",
                  "price=%s submitted=%s accepted as %s" % (f.price, ss, fmt(so)))
            if (sb is not None and sb != bo.price) or (ss is not None and ss != so.price):
                w.wit.inc("fill_of_off_grid_limit")
            if bo.kind == MARKET_ORDER or so.kind == MARKET_ORDER:
                w.wit.inc("market_vs_limit_fill")
        f = fills[-1]
        bo, so = buys[f.buy_order_id][0], sells[f.sell_order_id][0]
        if bo.kind == LIMIT_ORDER and so.kind == LIMIT_ORDER:
            first = bo if age_key(bo) < age_key(so) else so
            V(f.price == first.price, "C01.resting_price",
              "round price is not the limit of the earlier-accepted order of the last matched pair",
              "price=%s buy=%s sell=%s" % (f.price, fmt(bo), fmt(so)))
            if bo.placed_at == so.placed_at:
                w.wit.inc("tie_decided_by_id")
        elif bo.kind == LIMIT_ORDER or so.kind == LIMIT_ORDER:
            lim = bo if bo.kind == LIMIT_ORDER else so
            V(f.price == lim.price, "C01.limit_side_price",
              "round price is not the limit order's price although its counterpart is a market order",
              "price=%s buy=%s sell=%s" % (f.price, fmt(bo), fmt(so)))
        if len(fills) >= 2:
            w.wit.inc("multi_fill_round")
        if len(fills) >= 3:
            w.wit.inc("round_with_3_fills")
        if len(set(buys[f.buy_order_id][0].price for f in fills)) > 1 or \
                len(set(sells[f.sell_order_id][0].price for f in fills)) > 1:
            w.wit.inc("round_over_2_price_levels")
        for f in fills:
            for o, v in (buys[f.buy_order_id], sells[f.sell_order_id]):
                if v < w.by_id[id(o)].acc:
                    w.wit.inc("partially_filled_order_rematched")
        if sub.implicit:
            w.wit.inc("continuous_round")
        else:
            w.wit.inc("batch_round")


# comparison results depend only on these (immutable after acceptance) fields, so each distinct
# pair of field tuples is checked once per worker process
_PAIR_MEMO = set()
_SELF_MEMO = set()


def _fields(o):
    return (o.is_buy, o.kind.kind_id, o.price, o.placed_at, o.order_id)


# =================================================================================================
class C02Mon(Monitor):
    name = "C02"

    def on_sub(self, w, sub):
        if sub.exc is not None:
            return

        if sub.kind == "round" and sub.ret:
            fills = sub.ret
            filled = {}
            for f in fills:
                filled[f.buy_order_id] = filled.get(f.buy_order_id, 0) + f.volume
                filled[f.sell_order_id] = filled.get(f.sell_order_id, 0) + f.volume
            for side in (sub.pre_buy, sub.pre_sell):
                for o, v in side:
                    if filled.get(o.order_id, 0) > 0:
                        for o2, v2 in side:
                            if K(o2) < K(o):
                                V(filled.get(o2.order_id, 0) == v2, "C02.priority",
                                  "an order received a fill while a higher-priority order on its side was left with unfilled volume",
                                  "filled=%s left=%s(filled %s of %s)" % (fmt(o), fmt(o2), filled.get(o2.order_id, 0), v2))
                                w.wit.inc("priority_pair_checked")
                                if o2.kind == o.kind and o2.price == o.price:
                                    if o2.placed_at == o.placed_at:
                                        w.wit.inc("id_tiebreak_in_round")
                                    else:
                                        w.wit.inc("time_priority_in_round")
        if sub.kind == "flip":
            return
        m = w.m
        try:
            self._state_checks(w, m)
        except Violation:
            raise
        except Exception as e:  # noqa  (a comparison of two accepted same-side orders must be defined)
            raise Violation("C02.comparator_raises", "comparing two accepted orders of one side raised | %r" % (e,))

    def _state_checks(self, w, m):
        for bk in (m.buy_order_book, m.sell_order_book):
            q = list(bk.priority_queue)
            if not q:
                V(bk.get_best_order() is None and bk.get_best_price() is None, "C02.best",
                  "empty side reports a best order")
                continue
            top = min(q, key=K)
            V(bk.get_best_order() is top, "C02.best",
              "best order of a side is not its highest-priority resting order",
              "best=%s expected=%s" % (fmt(bk.get_best_order()), fmt(top)))
            V(bk.get_best_price() == top.price, "C02.best", "best price is not the price of the highest-priority order")
            # comparator algebra on every pair of resting orders of this side
            for i, a in enumerate(q):
                if (fa := _fields(a)) in _SELF_MEMO:
                    continue
                V(not (a < a) and not (a > a) and a == a and a <= a and a >= a and not (a != a),
                  "C02.comparator", "comparison of an order with itself is not reflexive-equal")
                _SELF_MEMO.add(fa)  # memoised only when the check passed: a failing pair fails in every state
            for i, a in enumerate(q):
                fa = _fields(a)
                for b in q[i + 1:]:
                    key = (fa, _fields(b))
                    w.wit.inc("comparator_pairs")
                    if key in _PAIR_MEMO:
                        continue
                    ka, kb = K(a), K(b)
                    V((a < b) == (ka < kb) and (b < a) == (kb < ka), "C02.comparator",
                      "`<` on orders disagrees with price-time priority", "%s vs %s" % (fmt(a), fmt(b)))
                    V((a > b) == (kb < ka) and (b > a) == (ka < kb), "C02.comparator",
                      "`>` is not the converse of `<`", "%s vs %s" % (fmt(a), fmt(b)))
                    V((a < b) != (b < a), "C02.comparator", "distinct orders are not strictly ordered")
                    V(not (a == b) and (a != b), "C02.comparator", "distinct orders compare equal")
                    V((a <= b) == (ka < kb) and (a >= b) == (kb < ka), "C02.comparator",
                      "`<=`/`>=` inconsistent with `<`/`>`")
                    _PAIR_MEMO.add(key)
                    if a.kind == b.kind and a.price == b.price and a.placed_at == b.placed_at:
                        w.wit.inc("comparator_id_tiebreak")
            # drain probe: what a sweep of the whole side would pop, in order
            if len(q) > 2:
                qq = list(q)
                out = []
                while qq:
                    out.append(heapq.heappop(qq))
                ks = [K(o) for o in out]
                V(ks == sorted(ks), "C02.drain_order",
                  "popping the side's queue does not yield orders in priority order (queue is not a heap)",
                  "popped=%s" % [fmt(o) for o in out])
                w.wit.inc("drain_probe_3plus")


# =================================================================================================
class C03Mon(Monitor):
    name = "C03"

    def on_sub(self, w, sub):
        if sub.kind != "round":
            return
        if sub.exc is not None:
            raise Violation("C03.raises", "matching round raised on a book reached by valid operations | %s" % repr(sub.exc)[:100])
        b, a = w.books()
        nmo_b = sum(1 for o, _ in sub.pre_buy if o.kind == MARKET_ORDER)
        nmo_s = sum(1 for o, _ in sub.pre_sell if o.kind == MARKET_ORDER)
        if nmo_b and nmo_s:
            w.wit.inc("round_with_market_orders_on_both_sides")
        elif nmo_b or nmo_s:
            w.wit.inc("round_with_market_orders_on_one_side")
        if sub.ret and len(sub.ret) >= 2:
            w.wit.inc("round_clearing_several_pairs")
        if b and a:
            bb, ba = min(b, key=K), min(a, key=K)
            if bb.kind == LIMIT_ORDER or ba.kind == LIMIT_ORDER:
                V(bb.kind == LIMIT_ORDER and ba.kind == LIMIT_ORDER, "C03.executable_left",
                  "after the round a market order at the top of one side faces a limit order",
                  "bid=%s ask=%s" % (fmt(bb), fmt(ba)))
                V(bb.price < ba.price, "C03.executable_left",
                  "after the round the best bid is not strictly below the best ask",
                  "bid=%s ask=%s" % (fmt(bb), fmt(ba)))
                w.wit.inc("post_round_two_sided_book")
            else:
                w.wit.inc("post_round_market_orders_facing")
        if not sub.ret:
            w.wit.inc("round_without_fill")


# =================================================================================================
class C04Mon(Monitor):
    name = "C04"

    def start(self, w):
        self.term = {}  # entry number -> (kind, volume reported, fills at that moment)

    def on_sub(self, w, sub):
        m = w.m
        if sub.exc is not None:
            if sub.kind in ("add", "cancel", "tick", "direct"):
                raise Violation("C04.raises", "a valid operation raised | %s raised %s" % (sub.kind, repr(sub.exc)[:100]))
            return
        if sub.kind == "add":
            o = sub.order
            V(o.volume > 0, "C04.positive", "accepted order has non-positive volume")
            V(o.placed_at == m.time and o.order_id is not None, "C04.accept", "accepted order not stamped with time/id")
            if o.ttl is not None:
                w.wit.inc("order_with_ttl")
        elif sub.kind == "round":
            pre = {o.order_id: o for o, _ in sub.pre_buy + sub.pre_sell}
            for f in sub.ret or []:
                V(f.time == m.time, "C04.fill_time", "fill stamped with a time other than the clock")
                for oid in (f.buy_order_id, f.sell_order_id):
                    V(oid in pre, "C04.fill_unknown", "fill names an order that was not resting")
                    o = pre[oid]
                    e = w.by_id[id(o)]
                    V(e.cancel_time is None and e.n not in self.term, "C04.fill_after_terminal",
                      "order filled after it was cancelled or expired", fmt(o))
                    V(o.ttl is None or f.time <= o.placed_at + o.ttl, "C04.fill_after_ttl",
                      "order filled later than acceptance time + time-to-live", fmt(o))
                    if o.ttl is not None and f.time == o.placed_at + o.ttl:
                        w.wit.inc("fill_in_last_step_of_ttl")
        elif sub.kind == "cancel":
            o = sub.order
            e = w.by_id[id(o)]
            l = sub.ret
            if e.n not in self.term:
                V(l.volume == e.acc - e.fills, "C04.cancel_volume",
                  "volume reported at cancellation is not accepted volume minus fills",
                  "reported=%s accepted=%s fills=%s" % (l.volume, e.acc, e.fills))
                self.term[e.n] = ("c", l.volume, e.fills)
                if e.fills and e.acc - e.fills > 0:
                    w.wit.inc("cancel_of_partially_filled")
                elif e.acc - e.fills == 0:
                    w.wit.inc("cancel_of_filled")
                else:
                    w.wit.inc("cancel_of_resting")
            else:
                w.wit.inc("cancel_of_" + {"c": "cancelled", "e": "expired"}[self.term[e.n][0]])
            V(o.is_canceled, "C04.cancel_mark", "cancelled order not marked as cancelled")
        elif sub.kind == "tick":
            gone = sub.ret
            logs = [l for _, l in sub.logged if isinstance(l, ExpirationLog)]
            V(len(logs) == len(gone) and sorted(l.order_id for l in logs) == sorted(o.order_id for o in gone),
              "C04.expiry_records", "expiry records do not correspond one-to-one to the orders that left the book at this clock step",
              "records=%s gone=%s" % (sorted(l.order_id for l in logs), sorted(o.order_id for o in gone)))
            byid = {o.order_id: o for o in gone}
            for l in logs:
                o = byid[l.order_id]
                e = w.by_id[id(o)]
                V(e.n not in self.term, "C04.expiry_after_terminal", "expiry of an order that already had a terminal event")
                V(o.ttl is not None and sub.time <= o.placed_at + o.ttl < m.time, "C04.expiry_time",
                  "order left the book at a step other than the one taking the clock past acceptance + ttl",
                  "%s ttl=%s now=%s" % (fmt(o), o.ttl, m.time))
                V(l.volume == e.acc - e.fills, "C04.expiry_volume",
                  "volume reported at expiry is not accepted volume minus fills",
                  "reported=%s accepted=%s fills=%s kind=%s" % (l.volume, e.acc, e.fills, o.kind))
                self.term[e.n] = ("e", l.volume, e.fills)
                w.wit.inc("expiry")
                if e.fills:
                    w.wit.inc("expiry_of_partially_filled")
                if o.kind == MARKET_ORDER:
                    w.wit.inc("expiry_of_market_order")
        # membership / accounting invariant in every reached state
        live = w.live_ids()
        now = m.time
        for e in w.entries:
            o = e.o
            rem = e.acc - e.fills
            should = (e.cancel_time is None and rem > 0 and (o.ttl is None or now <= o.placed_at + o.ttl))
            V((id(o) in live) == should, "C04.membership",
              "book membership of an order contradicts its accepted volume, fills, cancellation and time-to-live",
              "order is %sin the book although accepted=%s fills=%s cancelled=%s ttl=%s placed=%s now=%s" % (
                  "" if id(o) in live else "not ", e.acc, e.fills, e.cancel_time is not None, o.ttl, o.placed_at, now))
            if id(o) in live:
                V(o.volume == rem and o.volume > 0, "C04.resting_volume",
                  "resting volume is not accepted volume minus fills (or not positive)",
                  "volume=%s accepted=%s fills=%s" % (o.volume, e.acc, e.fills))
            t = self.term.get(e.n)
            if t is not None:
                V(e.fills == t[2] and e.acc == e.fills + t[1], "C04.identity",
                  "accepted volume != fills + volume reported at the first terminal event")
            elif id(o) not in live:
                V(rem == 0, "C04.lost", "order left the book without terminal event although volume remains",
                  "%s accepted=%s fills=%s" % (fmt(o), e.acc, e.fills))
        # the book as the market shows it to agents (volume per price) holds exactly the orders the ledger says are resting
        want = {True: {}, False: {}}
        for e in w.entries:
            o = e.o
            if e.cancel_time is None and e.acc - e.fills > 0 and (o.ttl is None or now <= o.placed_at + o.ttl):
                want[o.is_buy][e.acc_price] = want[o.is_buy].get(e.acc_price, 0) + e.acc - e.fills
        for side, view in ((True, m.get_buy_order_book()), (False, m.get_sell_order_book())):
            V(dict(view) == want[side], "C04.book_view",
              "the per-price view of a side shows orders that have left the book (or misses resting ones)",
              "%s side shows %s, resting by the ledger %s" % ("buy" if side else "sell", dict(view), want[side]))

    def on_bad(self, w, sub, exc):
        V(exc is not None, "C04.bad_accepted", "invalid operation %r was accepted" % (sub.op,))
        before, after = sub.ret
        V(before == after, "C04.bad_changed_state", "rejected operation %r changed the market state" % (sub.op,))
        V(not [l for l in sub.logged], "C04.bad_logged", "rejected operation %r produced log records" % (sub.op,))
        w.wit.inc("bad_op_rejected")


# =================================================================================================
def feq(a, b):
    if a is None or b is None:
        return a is b
    return a == b or abs(a - b) <= 1e-9 * max(1.0, abs(a), abs(b))


class C08Mon(Monitor):
    name = "C08"

    def start(self, w):
        m = w.m
        self.mp = m.get_market_price()
        self.last = None
        self.mid = None
        self.vol = {}
        self.tot = {}
        self.nb = {}
        self.ns = {}
        self.cumvol = 0
        self.cumtot = 0.0
        self.past = {}

    def canon_extra(self, w):
        return (self.cumvol, self.cumtot)

    def _mid(self, w):
        b, a = w.books()
        if not b or not a:
            return None
        bb, ba = min(b, key=K), min(a, key=K)
        if bb.kind != LIMIT_ORDER or ba.kind != LIMIT_ORDER:
            return None
        return (bb.price + ba.price) / 2.0

    def on_sub(self, w, sub):
        if sub.exc is not None:
            return
        m = w.m
        t = m.time
        running = m._is_running
        if sub.kind == "tick":
            # record what the previous step looked like at the last moment it was current
            # (carried values); past immutability itself is C06's business.
            if running:
                if self.last is not None:
                    self.mp = self.last
                elif self.mid is not None:
                    self.mp = self.mid
            w.wit.inc("tick_running" if running else "tick_not_running")
        elif sub.kind in ("add", "cancel"):
            if sub.kind == "add":
                d = self.nb if sub.order.is_buy else self.ns
                d[t] = d.get(t, 0) + 1
            self.mid = self._mid(w)
            if running:
                if self.last is not None:
                    self.mp = self.last
                elif self.mid is not None:
                    self.mp = self.mid
            else:
                w.wit.inc("book_event_while_not_running")
            if sub.kind == "cancel":
                w.wit.inc("cancel_event")
        elif sub.kind == "round":
            if sub.ret:
                for f in sub.ret:
                    self.vol[t] = self.vol.get(t, 0) + f.volume
                    self.tot[t] = self.tot.get(t, 0.0) + f.price * f.volume
                    self.cumvol += f.volume
                    self.cumtot += f.price * f.volume
                self.last = sub.ret[-1].price
                self.mid = self._mid(w)
                self.mp = self.last  # fills only happen while running
                w.wit.inc("fills")
        # ---- compare
        V(feq(m.get_market_price(), self.mp), "C08.market_price",
          "market price is not what book, fills and running state imply",
          "got %s expected %s (running=%s, last trade=%s, mid=%s) after %s" % (
              m.get_market_price(), self.mp, running, self.last, self.mid, sub.kind))
        V(feq(m.get_mid_price(), self.mid), "C08.mid_price", "mid price is not what the best quotes imply",
          "got %s expected %s after %s" % (m.get_mid_price(), self.mid, sub.kind))
        V(feq(m.get_last_executed_price(), self.last), "C08.last_price", "last executed price is not the most recent fill price",
          "got %s expected %s" % (m.get_last_executed_price(), self.last))
        b, a = w.books()
        for side, getter, bookgetter, rev in ((b, m.get_best_buy_price, m.get_buy_order_book, True),
                                              (a, m.get_best_sell_price, m.get_sell_order_book, False)):
            exp_best = min(side, key=K).price if side else None
            V(getter() == exp_best, "C08.best_quote", "best quote is not the price of the book's top order", "got %s expected %s" % (getter(), exp_best))
            exp = {}
            for o in side:
                exp[o.price] = exp.get(o.price, 0) + o.volume
            keys = sorted((k for k in exp if k is not None), reverse=rev)
            if None in exp:
                keys.insert(0, None)
                w.wit.inc("depth_with_market_order_bucket")
            got = bookgetter()
            V(list(got.items()) == [(k, exp[k]) for k in keys], "C08.depth",
              "per-price depth does not describe the current book", "got=%s expected=%s" % (got, [(k, exp[k]) for k in keys]))
        V(m.get_executed_volume() == self.vol.get(t, 0), "C08.step_volume", "executed volume of the step != sum of the step's fills",
          "got %s expected %s" % (m.get_executed_volume(), self.vol.get(t, 0)))
        V(feq(m.get_executed_total_price(), self.tot.get(t, 0.0)), "C08.step_turnover",
          "turnover of the step != sum of price x volume of the step's fills")
        V(m.get_n_buy_order() == self.nb.get(t, 0) and m.get_n_sell_order() == self.ns.get(t, 0), "C08.order_counts",
          "buy/sell order counts of the step != acceptances", "got %s/%s expected %s/%s" % (
              m.get_n_buy_order(), m.get_n_sell_order(), self.nb.get(t, 0), self.ns.get(t, 0)))
        if t >= 2 and sub.kind in ("tick", "round"):
            # the per-step series read for arbitrary selections of steps (sparse, newest first, repeated, strided, all)
            for times in ([0, t], [t, 0], [t - 1, t - 1], range(0, t + 1, 2), None):
                ts = list(range(0, t + 1)) if times is None else list(times)
                for getter, exp in ((m.get_executed_volumes, [self.vol.get(s_, 0) for s_ in ts]),
                                    (m.get_n_buy_orders, [self.nb.get(s_, 0) for s_ in ts]),
                                    (m.get_n_sell_orders, [self.ns.get(s_, 0) for s_ in ts])):
                    got = getter(times) if times is not None else getter()
                    V(list(got) == exp, "C08.series_selection", "a per-step series read for a selection of steps does not give those steps' values",
                      "%s(%s) = %s expected %s" % (getter.__name__, "all" if times is None else ts, list(got), exp))
                got = m.get_executed_total_prices(times) if times is not None else m.get_executed_total_prices()
                V(len(got) == len(ts) and all(feq(g_, self.tot.get(s_, 0.0)) for g_, s_ in zip(got, ts)), "C08.series_selection",
                  "a per-step series read for a selection of steps does not give those steps' values", "turnover for steps %s" % ts)
            w.wit.inc("series_read_for_step_selections")
            # the volume-weighted average price up to an explicit earlier step: cumulative turnover / cumulative volume up to it
            for s_ in (0, t // 2, t - 1):
                cv = sum(self.vol.get(u, 0) for u in range(0, s_ + 1))
                ct = sum(self.tot.get(u, 0.0) for u in range(0, s_ + 1))
                got = m.get_vwap(s_)
                if cv == 0:
                    V(isinstance(got, float) and math.isnan(got), "C08.vwap", "VWAP up to a step before the first fill is defined", "get_vwap(%d) = %r" % (s_, got))
                else:
                    V(feq(got, ct / cv), "C08.vwap", "VWAP up to an earlier step != cumulative turnover / cumulative volume up to that step",
                      "get_vwap(%d) = %r expected %r" % (s_, got, ct / cv))
        vw = m.get_vwap()
        if self.cumvol == 0:
            V(isinstance(vw, float) and math.isnan(vw), "C08.vwap", "VWAP defined before any fill")
        else:
            V(feq(vw, self.cumtot / self.cumvol), "C08.vwap", "VWAP != cumulative turnover / cumulative volume", "got %s expected %s" % (vw, self.cumtot / self.cumvol))
            if len(self.vol) > 1:
                w.wit.inc("vwap_over_several_steps")
        if b and min(b, key=K).kind == MARKET_ORDER or a and min(a, key=K).kind == MARKET_ORDER:
            w.wit.inc("market_order_on_top")
        if self.last is None and self.mid is not None and running:
            w.wit.inc("price_from_mid")


# =================================================================================================
class C10MMon(Monitor):
    """Market-level half of C10: what the logger receives during one market operation."""
    name = "C10"

    def on_sub(self, w, sub):
        if sub.exc is not None:
            return
        m = w.m
        logs = [l for _, l in sub.logged]
        if sub.kind == "add":
            V(len(logs) == 1 and logs[0] is sub.ret and isinstance(logs[0], OrderLog), "C10.m_order_record",
              "an accepted order did not produce exactly one order record", "received=%s" % [type(l).__name__ for l in logs])
            l, o, e = logs[0], sub.order, w.by_id[id(sub.order)]
            V((l.order_id, l.market_id, l.time, l.agent_id, l.is_buy, l.kind, l.volume, l.price, l.ttl) ==
              (o.order_id, m.market_id, m.time, o.agent_id, o.is_buy, o.kind, e.acc, o.price, o.ttl), "C10.m_order_fields",
              "order record fields differ from the accepted order's values")
            w.wit.inc("order_record")
        elif sub.kind == "cancel":
            V(len(logs) == 1 and logs[0] is sub.ret and isinstance(logs[0], CancelLog), "C10.m_cancel_record",
              "an accepted cancel did not produce exactly one cancel record", "received=%s" % [type(l).__name__ for l in logs])
            l, o = logs[0], sub.order
            V((l.order_id, l.market_id, l.cancel_time, l.order_time, l.agent_id, l.is_buy, l.kind, l.volume, l.price, l.ttl) ==
              (o.order_id, m.market_id, m.time, o.placed_at, o.agent_id, o.is_buy, o.kind, o.volume, o.price, o.ttl),
              "C10.m_cancel_fields", "cancel record fields differ from the cancelled order's values")
            w.wit.inc("cancel_record")
        elif sub.kind == "round":
            fills = sub.ret or []
            V(len(logs) == len(fills) and all(a is b for a, b in zip(logs, fills)), "C10.m_fill_records",
              "logger did not receive exactly one record per fill, in order",
              "fills=%d received=%d" % (len(fills), len(logs)))
            if len(fills) >= 2:
                w.wit.inc("multi_fill_records")
            if fills:
                w.wit.inc("fill_record")
        elif sub.kind == "tick":
            gone = sub.ret
            V(all(isinstance(l, ExpirationLog) for l in logs), "C10.m_tick_records", "clock step produced non-expiry records")
            V(sorted(l.order_id for l in logs) == sorted(o.order_id for o in gone), "C10.m_expiry_records",
              "logger did not receive exactly one expiry record per expired order",
              "received=%s expired=%s" % (sorted(l.order_id for l in logs), sorted(o.order_id for o in gone)))
            byid = {o.order_id: o for o in gone}
            for l in logs:
                o = byid[l.order_id]
                V((l.market_id, l.time, l.order_time, l.agent_id, l.is_buy, l.kind, l.volume, l.price, l.ttl) ==
                  (m.market_id, m.time, o.placed_at, o.agent_id, o.is_buy, o.kind, o.volume, o.price, o.ttl),
                  "C10.m_expiry_fields", "expiry record fields differ from the expired order's values")
                w.wit.inc("expiry_record")
                if not o.is_buy:
                    w.wit.inc("expiry_record_sell_side")
        else:
            V(not logs, "C10.m_spurious", "records written by an operation that is no book event")


# =================================================================================================
class C06MMon(Monitor):
    """Market-level half of C06: values recorded for a past time never change; queries for the
    future are refused (one Market, T-heavy histories, chunk boundaries)."""
    name = "C06"
    BULK = ["get_market_prices", "get_mid_prices", "get_last_executed_prices", "get_fundamental_prices",
            "get_executed_volumes", "get_executed_total_prices", "get_n_buy_orders", "get_n_sell_orders"]
    SINGLE = ["get_market_price", "get_mid_price", "get_last_executed_price", "get_fundamental_price",
              "get_executed_volume", "get_executed_total_price", "get_n_buy_order", "get_n_sell_order", "get_vwap"]

    def start(self, w):
        self.frozen = []  # per past time: tuple of series values frozen when that time was last current
        self.cur = self._now(w)

    def _now(self, w):
        m = w.m
        t = m.time
        return tuple(getattr(m, g)([t])[0] for g in self.BULK)

    def canon_extra(self, w):
        return tuple(self.frozen[-2:])

    def on_sub(self, w, sub):
        if sub.exc is not None:
            return
        m = w.m
        t = m.time
        if sub.kind == "tick":
            self.frozen.append(self.cur)
            V(len(self.frozen) == t, "C06.m_clock", "a clock step did not advance the market's time by exactly one")
            if t % m.chunk_size == 0:
                w.wit.inc("tick_across_storage_chunk")
        self.cur = self._now(w)
        if t > 0:
            cols = [getattr(m, g)(range(0, t)) for g in self.BULK]
            for gi, g in enumerate(self.BULK):
                for s in range(t):
                    V(cols[gi][s] == self.frozen[s][gi], "C06.m_history_changed", "a value recorded for a past time changed afterwards",
                      "%s time %d (now %d): was %r now %r after %s" % (g, s, t, self.frozen[s][gi], cols[gi][s], sub.kind))
            w.wit.inc("past_values_compared", t * len(self.BULK))
        if sub.kind in ("tick", "round"):
            for s in (t + 1, t + 2):
                for g in self.SINGLE:
                    try:
                        val = getattr(m, g)(s)
                    except Exception:  # noqa
                        continue
                    raise Violation("C06.m_future", "a market query for a time later than the current time was answered | %s(%d) at time %d returned %r" % (g, s, t, val))
                for g in self.BULK:
                    for times in ([t, s], [s, t], (s, 0), range(s, -1, -1), iter([s, t]), [0, s, t]):
                        try:
                            val = getattr(m, g)(times)
                        except Exception:  # noqa
                            continue
                        raise Violation("C06.m_future", "a market query for a time later than the current time was answered | %s(list containing %d) at time %d returned %r" % (g, s, t, val))
            w.wit.inc("future_queries_refused")
