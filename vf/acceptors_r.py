"""Engine-R acceptors: property statements as predicates over the ground-truth event record of one
complete execution (see explore_r.py for the record format)."""
from collections import Counter as PyCounter

from .common import Violation
from .explore_r import (CancelLog, ExecutionLog, ExpirationLog, MarketStepBeginLog, MarketStepEndLog,
                        OrderLog, SessionBeginLog, SessionEndLog, SimulationBeginLog, SimulationEndLog,
                        HighFrequencyAgent, IndexMarket, LIMIT_ORDER)


def V(cond, mon, msg, detail=""):
    if not cond:
        raise Violation(mon, msg + (" | " + detail if detail else ""))


def close(a, b, rel=1e-9):
    return a == b or abs(a - b) <= rel * max(1.0, abs(a), abs(b))


# =================================================================================================
# helpers: run structure


def cfg_sessions(sim):
    """[(start step, number of steps, session settings)] from the scenario's configuration (never from the Session objects)"""
    out, start = [], 0
    for s in sim._vf_cfg["simulation"]["sessions"]:
        out.append((start, s["iterationSteps"], s))
        start += s["iterationSteps"]
    return out


_HFT_CLASSES = ("ScriptedHFAgent", "ArbitrageAgent", "MarketMakerAgent", "HighFrequencyAgent")


def cfg_agents(sim):
    """[(agent id, is high-frequency)] as the configuration calls for them (groups in listing order, ids counted up)"""
    out = []
    for name in sim._vf_cfg["simulation"]["agents"]:
        blk = sim._vf_cfg[name]
        for _ in range(blk.get("numAgents", 1)):
            out.append((len(out), blk["class"] in _HFT_CLASSES))
    return out


def cfg_total_steps(sim):
    return sum(n for _, n, _ in cfg_sessions(sim))


def cfg_tick(sim, market_id):
    """a market's tick size as configured"""
    return sim._vf_cfg[sim.id2market[market_id].name]["tickSize"]


def split_steps(w):
    """Split the event record into per-step segments using the clock events.  Returns
    (pre, steps) where steps[t] is the list of events of step t (excluding clock events)."""
    segs = [[]]
    in_clock = False
    for e in w.ev:
        if e[0] == "clock":
            if not in_clock:
                segs.append([])
                in_clock = True
            continue
        if e[0] in ("lw", "lp") and in_clock and isinstance(e[1], ExpirationLog):
            continue  # expiry records are written inside the clock advance
        if e[0] in ("idx_clock", "idx_now") and in_clock:
            segs[-1].append(e)  # an observer's snapshot between the clock advances of two markets of one step
            continue
        in_clock = False
        segs[-1].append(e)
    return segs[0], segs[1:]


# =================================================================================================
# C05


def make_holdings_observer():
    def obs(w, label):
        sim = w.runner.simulator
        w.rec("hold", label, {a.agent_id: (a.get_cash_amount(), {m: a.get_asset_volume(m) for m in a.asset_volumes})
                             for a in sim.agents})
    return obs


def acc_C05(w):
    exp = {k: [v[0], dict(v[1])] for k, v in w.endow.items()}
    tot_cash0 = sum(v[0] for v in exp.values())
    tot_sh0 = PyCounter()
    for v in exp.values():
        for m, x in v[1].items():
            tot_sh0[m] += x
    nobs = 0

    def compare(hold, where):
        for aid, (cash, assets) in hold.items():
            V(close(cash, exp[aid][0]), "C05.cash",
              "an agent's cash differs from endowment folded with the fills reported so far",
              "agent %s at %s: has %r expected %r" % (aid, where, cash, exp[aid][0]))
            V(assets == exp[aid][1], "C05.shares",
              "an agent's share position differs from endowment folded with the fills reported so far",
              "agent %s at %s: has %r expected %r" % (aid, where, assets, exp[aid][1]))
        tc = sum(c for c, _ in hold.values())
        V(close(tc, tot_cash0), "C05.total_cash", "total cash is not conserved", "%r vs %r" % (tc, tot_cash0))
        ts = PyCounter()
        for _, a in hold.values():
            for m, x in a.items():
                ts[m] += x
        V(ts == tot_sh0, "C05.total_shares", "total number of shares of a market changed", "%r vs %r" % (dict(ts), dict(tot_sh0)))

    for e in w.ev:
        if e[0] == "round":
            # the fills a round reports are the volume that left the book in that round (nothing repeated, nothing kept back)
            rep = PyCounter()
            for l in e[2]:
                rep[(True, l.buy_order_id)] += l.volume
                rep[(False, l.sell_order_id)] += l.volume
            V(dict(rep) == dict(e[4]["delta"]), "C05.reported_fills",
              "the fills a matching round hands to the runner for settlement are not the volume that left the book in that round",
              "reported per order %s, volume lost per order %s" % (dict(rep), dict(e[4]["delta"])))
            for l in e[2]:
                b, s = exp[l.buy_agent_id], exp[l.sell_agent_id]
                b[0] -= l.price * l.volume
                s[0] += l.price * l.volume
                b[1][l.market_id] += l.volume
                s[1][l.market_id] -= l.volume
                if l.buy_agent_id == l.sell_agent_id:
                    w.wit.inc("self_trade")
                if l.price == 0:
                    w.wit.inc("fill_at_price_zero")
            if len(e[2]) >= 2:
                w.wit.inc("multi_fill_round")
            if len(e[2]) >= 4:
                w.wit.inc("round_with_4_fills")
            if e[2]:
                w.wit.inc("round_with_fills")
        elif e[0] == "hold":
            nobs += 1
            compare(e[2], e[1])
        elif e[0] == "cb_exe":
            aid = e[1]
            V(close(e[3], exp[aid][0]) and e[4] == exp[aid][1], "C05.at_callback",
              "holdings seen inside executed_order differ from endowment folded with all fills so far",
              "agent %s has cash %r %r expected %r %r" % (aid, e[3], e[4], exp[aid][0], exp[aid][1]))
    sim = w.runner.simulator
    compare({a.agent_id: (a.get_cash_amount(), dict(a.asset_volumes)) for a in sim.agents}, "end of run")
    w.wit.inc("observation_points", nobs)


# =================================================================================================
# C09


def acc_C09(w):
    sim = w.runner.simulator
    cfg_sessions = w.scn.cfg["simulation"]["sessions"]
    normal = [aid for aid, h in cfg_agents(sim) if not h]
    hft = [aid for aid, h in cfg_agents(sim) if h]
    pre, steps = split_steps(w)
    per_step = []
    for s in cfg_sessions:
        per_step += [s] * s["iterationSteps"]
    # after the last step the clock advances once more: len(steps) == total steps, the final
    # segment after the last clock advance holds only end-of-run logger traffic
    V(len(steps) == len(per_step) + 1, "C09.steps", "number of steps differs from the configured total", "%d vs %d" % (len(steps) - 1, len(per_step)))
    halted_markets = w.scn.meta.get("halt_targets")
    for t, (evs, s) in enumerate(zip(steps, per_step)):
        seq = [e for e in evs if e[0] in ("sample", "consult", "u", "acc", "can", "round")]
        fills = [l for e in evs if e[0] == "round" for l in e[2]]
        if not s["withOrderPlacement"]:
            V(not [e for e in seq if e[0] == "consult"], "C09.placement_off_consult",
              "an agent was asked for orders in a session without order placement", "step %d" % t)
            V(not [e for e in seq if e[0] in ("acc", "can")], "C09.placement_off_accept",
              "an order or cancel was accepted in a session without order placement", "step %d" % t)
            V(not fills, "C09.fill_without_placement", "a fill occurred in a step without order placement", "step %d" % t)
            w.wit.inc("step_without_placement")
            continue
        if not s["withOrderExecution"]:
            V(not fills, "C09.fill_in_no_execution_session",
              "a fill occurred in a session declared without order execution", "step %d session %s" % (t, s["sessionName"]))
            w.wit.inc("step_without_execution")
        else:
            w.wit.inc("step_with_execution")
        capN = s.get("maxNormalOrders", 1)
        capH = s.get("maxHighFrequencyOrders", s.get("maxHifreqOrders", 1))
        rate = s.get("highFrequencySubmitRate", s.get("hifreqSubmitRate", 1.0))
        i = [0]

        def nxt(kind):
            if i[0] < len(seq) and seq[i[0]][0] == kind:
                i[0] += 1
                return seq[i[0] - 1]
            return None

        def peek():
            return seq[i[0]][0] if i[0] < len(seq) else None

        def process_batch(consult_ev, who):
            """Each order/cancel of the batch is accepted, in the order returned, and in an
            execution session is followed by a matching round on its market unless a halt is in force."""
            n_items = len(consult_ev[2])
            for j in range(n_items):
                e = nxt("acc") or nxt("can")
                V(e is not None, "C09.batch_not_processed", "an order returned by a consulted agent was not submitted to its market next",
                  "step %d agent %s item %d, next event %s" % (t, who, j, peek()))
                want_agent = e[2].agent_id
                V(want_agent == who, "C09.batch_not_processed", "order of another agent processed in this batch")
                # "unless a trading halt is in force": while any market of the run is stopped in an execution
                # session, matching rounds are neither required nor forbidden (fills on a stopped market are C16's)
                running = e[-1]["running"] and e[-1].get("all_running", True)
                if s["withOrderExecution"]:
                    if running:
                        r = nxt("round")
                        V(r is not None and r[1] == e[1], "C09.no_round_after_accept",
                          "in an execution session an accepted order/cancel was not followed by a matching round on its market",
                          "step %d market %s next=%s" % (t, e[1], peek()))
                    else:
                        w.wit.inc("accept_during_halt")
                        if peek() == "round":
                            nxt("round")
                else:
                    V(peek() != "round" or not seq[i[0]][2], "C09.round_in_no_execution_session",
                      "matching produced fills in a session without order execution")
                    if peek() == "round":
                        nxt("round")

        smp = nxt("sample")
        V(smp is not None and sorted(x for x in smp[1]) == sorted(normal), "C09.normal_sample",
          "the step does not start by drawing an activation order of all normal agents", "step %d" % t)
        order = [smp[1][j] for j in smp[2]]
        n = 0
        batches = []
        consulted = []
        for a in order:
            if n >= capN:
                break
            c = nxt("consult")
            V(c is not None and c[1] == a, "C09.normal_order",
              "normal agents are not consulted in the drawn order until maxNormalOrders of them produced orders",
              "step %d expected agent %s got %s" % (t, a, None if c is None else c[1]))
            consulted.append(a)
            if len(c[2]) > 0:
                n += 1
                batches.append(c)
                if len(c[2]) >= 2:
                    w.wit.inc("two_order_batch")
            else:
                w.wit.inc("empty_batch")
        V(peek() != "consult", "C09.normal_cap", "a normal agent was consulted after maxNormalOrders agents had produced orders (or twice)",
          "step %d cap %s" % (t, capN))
        V(n >= capN or len(consulted) == len(normal), "C09.normal_not_all_consulted",
          "a normal agent was never asked in a step in which fewer than maxNormalOrders agents produced orders",
          "step %d cap %s: %d of %d agents asked, %d produced orders" % (t, capN, len(consulted), len(normal), n))
        if n >= capN and len(consulted) < len(order):
            w.wit.inc("normal_cap_reached")
        elif len(consulted) == len(order):
            w.wit.inc("normal_cap_not_reached")
        if capN == 0:
            w.wit.inc("normal_cap_zero")
        smp2 = nxt("sample")
        V(smp2 is not None and smp2[3] == len(batches) and len(smp2[1]) == len(batches), "C09.batch_sample", "batches of the step are not shuffled once", "step %d" % t)
        batches = [batches[j] for j in smp2[2]]
        if len(batches) >= 2:
            w.wit.inc("two_normal_batches_in_step")
        for c in batches:
            process_batch(c, c[1])
            u = nxt("u")
            V(u is not None, "C09.rate_draw", "no high-frequency rate draw after a processed normal batch", "step %d" % t)
            if u[1] < rate or (rate >= 1.0):
                w.wit.inc("hft_phase")
                hs = nxt("sample")
                V(hs is not None and sorted(hs[1]) == sorted(hft), "C09.hft_sample",
                  "high-frequency agents not drawn after a rate draw below the submit rate", "step %d u=%r rate=%r" % (t, u[1], rate))
                horder = [hs[1][j] for j in hs[2]]
                nh = 0
                hcons = 0
                for h in horder:
                    if nh >= capH:
                        break
                    c2 = nxt("consult")
                    V(c2 is not None and c2[1] == h, "C09.hft_order",
                      "high-frequency agents are not consulted in the drawn order until maxHighFrequencyOrders of them produced orders",
                      "step %d expected %s got %s" % (t, h, None if c2 is None else c2[1]))
                    hcons += 1
                    if len(c2[2]) > 0:
                        nh += 1
                        if len(c2[2]) >= 2:
                            w.wit.inc("hft_two_order_batch")
                        process_batch(c2, h)
                V(nh >= capH or hcons == len(hft), "C09.hft_not_all_consulted",
                  "a high-frequency agent was never asked in a round in which fewer than maxHighFrequencyOrders of them produced orders",
                  "step %d cap %s: %d of %d asked, %d produced orders" % (t, capH, hcons, len(hft), nh))
                V(peek() != "consult" or seq[i[0]][1] not in hft, "C09.hft_cap",
                  "a high-frequency agent was consulted after maxHighFrequencyOrders of them had produced orders",
                  "step %d cap %s" % (t, capH))
                if nh >= capH and hcons < len(horder):
                    w.wit.inc("hft_cap_reached")
                if capH == 0:
                    w.wit.inc("hft_cap_zero")
            else:
                w.wit.inc("hft_skipped_by_rate_draw")
                V(peek() not in ("sample",) or True, "C09.hft_skipped", "")
                V(not (peek() == "consult" and seq[i[0]][1] in hft), "C09.hft_rate",
                  "high-frequency agents consulted although the rate draw was above the submit rate", "step %d u=%r rate=%r" % (t, u[1], rate))
        V(i[0] == len(seq), "C09.extra_activity", "activity in the step beyond what the session rules allow",
          "step %d: %s" % (t, [x[0] + (":%s" % x[1] if x[0] == "consult" else "") for x in seq[i[0]:]][:6]))


# =================================================================================================
# C01 (whole runs: the limits as ACCEPTED, one price per round, the resting side sets it)


def acc_C01(w):
    accepted = {}  # (market, order id) -> (acceptance sequence number, accepted order tuple)
    n = 0
    for e in w.ev:
        if e[0] == "acc":
            post = e[6]
            accepted[(post[1], post[0])] = (n, post)
            n += 1
        elif e[0] == "round" and e[2]:
            fills = e[2]
            V(len(set(l.price for l in fills)) == 1, "C01.one_price", "fills of one matching round carry several prices",
              "prices=%s" % sorted(set(l.price for l in fills)))
            for l in fills:
                b, s_ = accepted.get((e[1], l.buy_order_id)), accepted.get((e[1], l.sell_order_id))
                V(b is not None and s_ is not None, "C01.pairing", "fill does not pair an accepted buy with an accepted sell of this market")
                if b[1][5] == LIMIT_ORDER:
                    V(l.price <= b[1][7], "C01.buy_limit", "fill price above the buyer's limit",
                      "price=%s, buy order %s accepted with limit %s" % (l.price, l.buy_order_id, b[1][7]))
                if s_[1][5] == LIMIT_ORDER:
                    V(l.price >= s_[1][7], "C01.sell_limit", "fill price below the seller's limit",
                      "price=%s, sell order %s accepted with limit %s" % (l.price, l.sell_order_id, s_[1][7]))
            l = fills[-1]
            b, s_ = accepted[(e[1], l.buy_order_id)], accepted[(e[1], l.sell_order_id)]
            if b[1][5] == LIMIT_ORDER and s_[1][5] == LIMIT_ORDER:
                first = b if (b[1][2], b[0]) < (s_[1][2], s_[0]) else s_
                V(l.price == first[1][7], "C01.resting_price",
                  "round price is not the limit of the earlier-accepted order of the last matched pair",
                  "price=%s buy accepted #%d at %s, sell accepted #%d at %s" % (l.price, b[0], b[1][7], s_[0], s_[1][7]))
            elif b[1][5] == LIMIT_ORDER or s_[1][5] == LIMIT_ORDER:
                lim = b if b[1][5] == LIMIT_ORDER else s_
                V(l.price == lim[1][7], "C01.limit_side_price",
                  "round price is not the limit order's price although its counterpart is a market order",
                  "price=%s limit=%s" % (l.price, lim[1][7]))
            w.wit.inc("whole_run_rounds_with_fills")


# =================================================================================================
# C02 (whole runs: within every matching round no order is filled while a higher-priority order of its side keeps volume)


def acc_C02(w):
    for e in w.ev:
        if e[0] != "round" or not e[2]:
            continue
        pre = e[4]["pre"]
        filled = PyCounter()
        for l in e[2]:
            filled[(True, l.buy_order_id)] += l.volume
            filled[(False, l.sell_order_id)] += l.volume
        for side in (True, False):
            book = [(k, oid, vol) for (oid, is_buy, k, vol) in pre if is_buy == side]
            got = [(k, oid) for (k, oid, vol) in book if filled[(side, oid)] > 0]
            left = [(k, oid) for (k, oid, vol) in book if vol - filled[(side, oid)] > 0]
            bad = [(x, y) for x in left for y in got if x[0] < y[0] and x[1] != y[1]]
            V(not bad, "C02.priority", "an order received a fill while a higher-priority order on its side was left with unfilled volume",
              "%s side: %s" % ("buy" if side else "sell", "; ".join("order %s (key %s) filled, order %s (key %s) keeps volume" % (y[1], y[0], x[1], x[0]) for x, y in bad[:2])))
        w.wit.inc("whole_run_rounds_with_fills")


# =================================================================================================
# C03 (whole runs: every matching round the run loop starts returns, and leaves no executable pair behind)


def acc_C03(w):
    for e in w.ev:
        if e[0] == "round_raised":
            raise Violation("C03.raises", "a matching round started by the run loop raised", "market %s (running=%s): %s" % (e[1], e[2], e[3]))
        if e[0] != "round":
            continue
        bb, ba = e[4]["post"]
        if e[3] and bb is not None and ba is not None:
            if bb[0] == 1 or ba[0] == 1:
                V(bb[0] == 1 and ba[0] == 1 and -bb[1] < ba[1], "C03.executable_left",
                  "after a matching round of a run an executable pair is left at the top of the book",
                  "market %s t=%s: best buy key %s, best sell key %s" % (e[1], e[4]["t"], bb, ba))
            w.wit.inc("whole_run_rounds_leaving_a_two_sided_book")
        if e[2]:
            w.wit.inc("whole_run_rounds_with_fills")


def on_exc_C03(w):
    for e in w.ev:
        if e[0] == "round_raised":
            return ("C03.raises", "a matching round started by the run loop raised | market %s (running=%s): %s" % (e[1], e[2], e[3]))
    return None  # other aborted runs belong to the checks that own the scenario families


# =================================================================================================
# C04 (whole runs: accepted volume = fills + volume reported at the first terminal event (or still resting))


def acc_C04(w):
    sim = w.runner.simulator
    acc = {}     # (market, order id) -> volume at acceptance
    lost = PyCounter()
    term = {}    # (market, order id) -> volume reported at the first terminal event
    for e in w.ev:
        if e[0] == "acc":
            post = e[6]
            acc[(post[1], post[0])] = post[6]
        elif e[0] == "round":
            for (is_buy, oid), v in e[4]["delta"].items():
                key = (e[1], oid)
                V(key in acc and key not in term, "C04.fill_after_terminal", "an order lost volume in a matching round after its terminal event (or without ever being accepted)",
                  "market %s order %s" % key)
                lost[key] += v
        elif e[0] == "can":
            key = (e[1], e[4][0])
            if key not in term:
                term[key] = e[2].volume
        elif e[0] == "clock":
            for o in e[3]:
                key = (e[1], o.order_id)
                if key not in term:
                    term[key] = o.volume
    resting = {}
    for m in sim.markets:
        for o in list(m.buy_order_book.priority_queue) + list(m.sell_order_book.priority_queue):
            resting[(m.market_id, o.order_id)] = o.volume
    for key, a in acc.items():
        rest = term[key] if key in term else resting.get(key, 0)
        V(a == lost[key] + rest, "C04.identity", "accepted volume != fills + volume reported at the first terminal event (or still resting at the end)",
          "market %s order %s: accepted %s, lost in rounds %s, %s %s" % (key[0], key[1], a, lost[key], "terminal" if key in term else "resting", rest))
        if key in term:
            V(key not in resting, "C04.rests_after_terminal", "an order is still in the book after its terminal event", "market %s order %s" % key)
    w.wit.inc("whole_run_rounds_with_fills", sum(1 for e in w.ev if e[0] == "round" and e[2]))


# =================================================================================================
# C10

_REC_TYPES = (OrderLog, CancelLog, ExecutionLog, ExpirationLog)
_BOUNDARY = (SessionBeginLog, SessionEndLog, SimulationEndLog)


def _fields(l):
    return (type(l).__name__,) + tuple(sorted((k, v) for k, v in vars(l).items()))


def acc_C10(w):
    sim = w.runner.simulator
    truth = []  # ("O"/"C"/"X", fields) or ("E", market, time, frozenset ids)
    got = []
    pending_exp = []

    def flush_exp():
        if pending_exp:
            got.append(("E", pending_exp[0].market_id, pending_exp[0].time, tuple(sorted(l.order_id for l in pending_exp))))
            del pending_exp[:]

    written = []  # records in write order (identity)
    processed = []
    accepted = {}  # (market, order id) -> the order as accepted
    for e in w.ev:
        k = e[0]
        if k == "lw" and isinstance(e[1], ExpirationLog):
            if pending_exp and (pending_exp[0].market_id, pending_exp[0].time) != (e[1].market_id, e[1].time):
                flush_exp()
            pending_exp.append(e[1])
            written.append(e[1])
            continue
        if k in ("lw", "lwd", "lp"):
            if k == "lw" and isinstance(e[1], _REC_TYPES):
                flush_exp()
                l = e[1]
                got.append(({OrderLog: "O", CancelLog: "C", ExecutionLog: "X"}[type(l)], _fields(l)))
                written.append(l)
            elif k == "lwd" and isinstance(e[1], _REC_TYPES):
                flush_exp()
                l = e[1]
                got.append(({OrderLog: "O", CancelLog: "C", ExecutionLog: "X"}.get(type(l), "E?"), _fields(l)))
                written.append(l)
            elif k == "lp" and isinstance(e[1], _REC_TYPES):
                processed.append(e[1])
            continue
        if k == "clock":
            # expiry records of this clock advance have been written just before this event
            flush_exp()
            gone = e[3]
            if gone:
                truth.append(("E", e[1], e[2], tuple(sorted(o.order_id for o in gone))))
                w.wit.inc("expiry_records", len(gone))
                if e[2] == cfg_total_steps(sim):
                    w.wit.inc("expiry_at_final_clock_step")
            continue
        if k == "acc":
            l, post = e[2], e[6]
            accepted[(post[1], post[0])] = post
            V(post[1] == e[1] and post[2] == e[7]["t"], "C10.order_fields",
              "an accepted order is stamped with a market or time other than the market that accepted it and that market's time",
              "order market %r placed_at %r, accepted by market %r at time %r" % (post[1], post[2], e[1], e[7]["t"]))
            truth.append(("O", ("OrderLog",) + tuple(sorted(dict(order_id=post[0], market_id=post[1], time=post[2], agent_id=post[3],
                         is_buy=post[4], kind=post[5], volume=post[6], price=post[7], ttl=post[8]).items()))))
            w.wit.inc("order_records")
        elif k == "can":
            post = e[4]
            V(post[1] == e[1] and post[2] == e[5]["t"], "C10.cancel_fields",
              "an accepted cancel is stamped with a market or time other than the market that accepted it and that market's time",
              "cancel market %r time %r, accepted by market %r at time %r" % (post[1], post[2], e[1], e[5]["t"]))
            truth.append(("C", ("CancelLog",) + tuple(sorted(dict(order_id=post[0], market_id=post[1], cancel_time=post[2], order_time=post[3],
                         agent_id=post[4], is_buy=post[5], kind=post[6], volume=post[7], price=post[8], ttl=post[9]).items()))))
            w.wit.inc("cancel_records")
        elif k == "round":
            for l in e[2]:
                truth.append(("X", _fields(l)))
                w.wit.inc("fill_records")
                # the record's own fields against what the probes saw (the stream comparison above compares the
                # record objects with themselves as far as field VALUES go)
                V(l.market_id == e[1] and l.time == e[4]["t"], "C10.fill_fields",
                  "a fill record's market or time differs from the market and the time of the matching round that produced it",
                  "record market %r time %r, round on market %r at time %r" % (l.market_id, l.time, e[1], e[4]["t"]))
                b, s_ = accepted.get((e[1], l.buy_order_id)), accepted.get((e[1], l.sell_order_id))
                V(b is not None and s_ is not None and b[4] and not s_[4] and b[3] == l.buy_agent_id and s_[3] == l.sell_agent_id,
                  "C10.fill_parties", "a fill record names orders or agents that are not the accepted buy and sell order it matched",
                  "record buy order %r agent %r sell order %r agent %r; accepted %r / %r" % (
                      l.buy_order_id, l.buy_agent_id, l.sell_order_id, l.sell_agent_id, b, s_))
                V(l.volume > 0 and (b[5] != LIMIT_ORDER or l.price <= b[7]) and (s_[5] != LIMIT_ORDER or l.price >= s_[7]),
                  "C10.fill_values", "a fill record carries a non-positive volume or a price outside the limits of its two orders",
                  "price %r volume %r buy limit %r sell limit %r" % (l.price, l.volume, b[7], s_[7]))
            if len(e[2]) >= 2:
                w.wit.inc("multi_fill_round")
    flush_exp()
    if truth != got:
        # find first difference for the message
        n = min(len(truth), len(got))
        i = next((j for j in range(n) if truth[j] != got[j]), n)
        kind_t = truth[i][0] if i < len(truth) else None
        kind_g = got[i][0] if i < len(got) else None
        names = {"O": "order", "C": "cancel", "X": "fill", "E": "expiry", None: "nothing"}
        if kind_t == kind_g:
            raise Violation("C10.fields", "a %s record's fields differ from the event's actual values" % names[kind_t],
                            "event #%d truth=%r got=%r" % (i, truth[i], got[i]))
        dup = i > 0 and i < len(got) and got[i] == got[i - 1]
        raise Violation("C10.stream", "the record stream the logger receives differs from what happened (%s)" % (
            "a record is delivered twice" if dup else "missing, extra or reordered record"),
            "position %d: expected %s, received %s; %d events / %d records" % (
                i, names.get(kind_t), names.get(kind_g, kind_g), len(truth), len(got)))
    if w.scn.meta.get("logger") == "layered":
        # a logger whose handlers are spread over two class levels: every processed record reaches its handler exactly once
        handled = [e[1] for e in w.ev if e[0] == "lh"]
        allp = [e[1] for e in w.ev if e[0] == "lp"]
        V([id(x) for x in handled] == [id(x) for x in allp], "C10.handlers",
          "a processed record did not reach the logger's handler for its type exactly once (handlers defined on a parent class of the logger)",
          "processed %d records, handlers received %d; first record type without its handler call: %s" % (
              len(allp), len(handled), next((type(x).__name__ for x, y in zip(allp, handled + [None] * len(allp)) if x is not y), "?")))
        w.wit.inc("layered_logger_runs")
    V([id(x) for x in processed] == [id(x) for x in written], "C10.processed",
      "records are not processed exactly once in the order they were written",
      "written=%d processed=%d" % (len(written), len(processed)))
    # begin / end records
    cnt = PyCounter()
    for e in w.ev:
        if e[0] in ("lw", "lwd"):
            l = e[1]
            if isinstance(l, (SimulationBeginLog, SimulationEndLog)):
                cnt[type(l).__name__] += 1
            elif isinstance(l, (SessionBeginLog, SessionEndLog)):
                cnt[(type(l).__name__, l.session.session_id)] += 1
    steps_total = cfg_total_steps(sim)
    V(cnt["SimulationBeginLog"] == 1 and cnt["SimulationEndLog"] == 1, "C10.simulation_records",
      "not exactly one begin and one end record for the simulation")
    for sid in range(len(cfg_sessions(sim))):
        V(cnt[("SessionBeginLog", sid)] == 1 and cnt[("SessionEndLog", sid)] == 1,
          "C10.session_records", "not exactly one begin and one end record for a session", "session %s" % sid)
    V(not [k for k in cnt if isinstance(k, tuple) and k[1] >= len(cfg_sessions(sim))], "C10.session_records",
      "begin / end records for a session that is not configured")
    # step records: one begin + one end per (market, step), delivered synchronously
    pre, steps = split_steps(w)
    V(len(steps) >= steps_total, "C10.steps", "fewer steps than configured")
    for t in range(steps_total):
        evs = steps[t]
        for cls, name in ((MarketStepBeginLog, "begin"), (MarketStepEndLog, "end")):
            for m in sim.markets:
                n = sum(1 for e in evs if e[0] in ("lw", "lwd") and isinstance(e[1], cls) and e[1].market is m)
                V(n == 1, "C10.step_records", "not exactly one %s record for a market step" % name, "market %s step %d: %d" % (m.market_id, t, n))
    evl = w.ev
    for j, e in enumerate(evl):
        if e[0] in ("lw", "lwd") and isinstance(e[1], (MarketStepBeginLog, MarketStepEndLog)):
            V(j + 1 < len(evl) and evl[j + 1][0] == "lp" and evl[j + 1][1] is e[1], "C10.step_sync",
              "a market-step record was not processed inside the call that wrote it")
    # flush points: after the write of a session-begin / session-end / simulation-end record,
    # everything written before must be processed before anything else happens
    pending = {}
    armed = False
    for e in evl:
        k = e[0]
        if k == "lw":
            pending[id(e[1])] = e[1]
            if isinstance(e[1], _BOUNDARY):
                armed = True
        elif k == "lwd" and isinstance(e[1], (SessionBeginLog, SessionEndLog, SimulationBeginLog, SimulationEndLog)) and pending:
            raise Violation("C10.flush", "records written before a session boundary were not delivered by that boundary",
                            "%d records still pending when the %s record was delivered" % (len(pending), type(e[1]).__name__))
        elif k == "lp":
            pending.pop(id(e[1]), None)
            if not pending:
                armed = False
        elif k != "lwd" and armed and pending:
            raise Violation("C10.flush", "records written before a session boundary were not delivered by that boundary",
                            "%d records still pending when %s happened" % (len(pending), k))
    V(not pending, "C10.flush_end", "records still undelivered at the end of the simulation", "%d" % len(pending))


# =================================================================================================
# C11


def acc_C11(w):
    sim = w.runner.simulator
    exp = {aid: PyCounter() for aid, _ in cfg_agents(sim)}
    got = {aid: PyCounter() for aid, _ in cfg_agents(sim)}
    happened = set()
    hold = {k: [v[0], dict(v[1])] for k, v in w.endow.items()}
    for e in w.ev:
        k = e[0]
        if k == "acc":
            exp[e[2].agent_id][("sub", _fields(e[2]))] += 1
            happened.add(("sub", _fields(e[2])))
        elif k == "can":
            exp[e[2].agent_id][("can", _fields(e[2]))] += 1
            happened.add(("can", _fields(e[2])))
            if e[2].volume == 0:
                w.wit.inc("cancel_of_dead_order")
        elif k == "round":
            for l in e[2]:
                # "that fill's record": it names the market and the time of the round that produced the fill
                V(l.market_id == e[1] and l.time == e[4]["t"], "C11.record", "the record an agent is handed for a fill does not carry the market and time of that fill",
                  "record market %r time %r, round on market %r at time %r" % (l.market_id, l.time, e[1], e[4]["t"]))
                exp[l.buy_agent_id][("exe", _fields(l))] += 1
                exp[l.sell_agent_id][("exe", _fields(l))] += 1
                happened.add(("exe", _fields(l)))
                b, s = hold[l.buy_agent_id], hold[l.sell_agent_id]
                b[0] -= l.price * l.volume
                s[0] += l.price * l.volume
                b[1][l.market_id] += l.volume
                s[1][l.market_id] -= l.volume
                if l.buy_agent_id == l.sell_agent_id:
                    w.wit.inc("self_trade")
            if len(e[2]) >= 2:
                w.wit.inc("multi_fill_round")
        elif k in ("cb_sub", "cb_can", "cb_exe"):
            key = (k[3:], _fields(e[2]))
            V(key in happened, "C11.unknown_event", "an agent was notified of an event that did not happen (before it happened)",
              "agent %s %s" % (e[1], k))
            got[e[1]][key] += 1
            if k == "cb_exe":
                aid = e[1]
                V(close(e[3], hold[aid][0]) and e[4] == hold[aid][1], "C11.holdings_at_callback",
                  "executed_order was called before holdings were updated for the whole round",
                  "agent %s sees cash %r shares %r, after the round they are %r %r" % (aid, e[3], e[4], hold[aid][0], hold[aid][1]))
                w.wit.inc("executed_callbacks")
                if isinstance(sim.id2agent[aid], HighFrequencyAgent):
                    w.wit.inc("hft_executed_callback")
            elif k == "cb_sub":
                w.wit.inc("submitted_callbacks")
                if isinstance(sim.id2agent[e[1]], HighFrequencyAgent):
                    w.wit.inc("hft_submitted_callback")
            else:
                w.wit.inc("canceled_callbacks")
    for aid in exp:
        if exp[aid] != got[aid]:
            missing = exp[aid] - got[aid]
            extra = got[aid] - exp[aid]
            what = []
            for (kind, f), n in list(missing.items())[:2]:
                what.append("missing %s x%d" % (kind, n))
            for (kind, f), n in list(extra.items())[:2]:
                what.append("extra %s x%d" % (kind, n))
            kinds = sorted(set(k for (k, _f) in list(missing) + list(extra)))
            raise Violation("C11.callbacks", "an agent's notifications differ from the events it is a party to (%s)" % ",".join(
                ("missing " if any(kk == k2 for (kk, _f) in missing) else "extra ") + k2 for k2 in kinds),
                "agent %s: %s" % (aid, "; ".join(what)))


# =================================================================================================
# C13


def _filter_ok(flt, market, sim):
    if not flt:
        return True
    for part in flt.split("+"):
        kind, val = part.split(":")
        if kind == "cls":
            if val == "IndexMarket" and not isinstance(market, IndexMarket):
                return False
            # cls:Market / cls:ProbeMarket: every market of these scenarios is a Market
            if val == "ProbeMarket" and isinstance(market, IndexMarket):
                return False
        else:
            if sim.markets[int(val)] is not market:
                return False
    return True


def _mode_of(cfg, session_id, state):
    """(market, withOrderExecution of the configured session) per market of a hk_state record"""
    ss = cfg["simulation"]["sessions"]
    on = bool(ss[session_id].get("withOrderExecution", False)) if 0 <= session_id < len(ss) else None
    return [(x[0], on) for x in state]


def acc_C13(w):
    sim = w.runner.simulator
    cfg = w.scn.cfg
    occ = []  # (type, is_before, time, market_id)
    for e in w.ev:
        k = e[0]
        if k == "acc":
            occ += [("order", True, e[2].time, e[1]), ("order", False, e[2].time, e[1])]
            w.wit.inc("order_occurrences")
        elif k == "can":
            occ += [("cancel", True, e[2].cancel_time, e[1]), ("cancel", False, e[2].cancel_time, e[1])]
            w.wit.inc("cancel_occurrences")
            if e[2].cancel_time != e[2].order_time:
                w.wit.inc("cancel_later_than_order")
            if e[2].volume == 0:
                w.wit.inc("cancel_of_filled_order")
        elif k == "round":
            for l in e[2]:
                occ.append(("execution", False, l.time, e[1]))
                w.wit.inc("fill_occurrences")
    for (s0, n_, _) in cfg_sessions(sim):
        occ += [("session", True, s0, None), ("session", False, s0 + n_ - 1, None)]
        for t in range(s0, s0 + n_):
            for m in sim.markets:
                occ += [("market", True, t, m.market_id), ("market", False, t, m.market_id)]
    exp = PyCounter()
    # the event instances the CONFIGURATION calls for (one per listing of an event name under a session, numbered in
    # that order), not the ones the simulator says it has
    listed = [nm for s_ in cfg["simulation"]["sessions"] for nm in s_.get("events", [])]
    for event_id, ev_name in enumerate(listed):
        specs = list(cfg[ev_name]["hooks"]) if ev_name in cfg and "hooks" in cfg[ev_name] else []
        # specifications registered while the run was going on (their time lists name later steps only)
        late = [e[2] for e in w.ev if e[0] == "late_registered" and e[1] == event_id]
        if late:
            # only judged when every step they name lies after the step in which they were registered (otherwise some
            # of the named occasions had already passed at that moment)
            t_reg = max(x[2] for x in w.ev[:max(i for i, e in enumerate(w.ev) if e[0] == "late_registered")] if x[0] == "clock")
            if any(tm is None or min(tm) <= t_reg for (_, _, tm, _) in late):
                w.wit.inc("late_registration_not_judged")
                return
            w.wit.inc("hooks_registered_during_the_run", len(late))
        for (ty, b, tm, flt) in specs + late:
            for o in occ:
                if o[0] != ty or o[1] != b:
                    continue
                if tm is not None and o[2] not in tm:
                    continue
                if ty == "market" and not _filter_ok(flt, sim.id2market[o[3]], sim):
                    continue
                exp[(event_id, o[0], o[1], o[2], o[3])] += 1
            if tm is None:
                w.wit.inc("spec_time_none")
            elif not tm:
                w.wit.inc("spec_time_empty")
            elif len(set(tm)) < len(tm):
                w.wit.inc("spec_time_duplicate")
    got = PyCounter((e[1], e[2], e[3], e[4], e[5]) for e in w.ev if e[0] == "hk")
    if exp != got:
        miss, extra = exp - got, got - exp
        k = (list(extra) or list(miss))[0]
        raise Violation("C13.invocations",
                        "a hook was not invoked exactly once per matching occurrence (%s)" % ("invoked too often or where it should not" if extra else "not invoked"),
                        "%s-%s hook, occurrence time %s market %s: expected %d got %d" % (
                            "before" if k[2] else "after", k[1], k[3], k[4], exp[k], got[k]))
    w.wit.inc("hook_invocations", sum(got.values()))
    # 'before' hooks run before the occurrence takes effect
    for e in w.ev:
        if e[0] == "hk" and e[2] == "order" and e[3]:
            V(e[6][0] is None and e[6][1] is None, "C13.before_effect", "a before-order hook saw an order that was already accepted")
        if e[0] == "hk" and e[2] == "cancel" and e[3]:
            V(e[6][0] is None, "C13.before_effect", "a before-cancel hook saw a cancel that was already accepted")
    # ... also for sessions: what a before-session hook finds (clocks, which markets are matching) is what the after-session
    # hooks of the session before left -- the new session's mode is not in force yet
    last_after = None
    for e in w.ev:
        if e[0] != "hk_state":
            continue
        if not e[2]:
            last_after = e
        elif last_after is not None and last_after[3] != e[3]:
            V(e[4] == last_after[4], "C13.before_effect", "a before-session hook finds the markets in another state (clock, matching on/off) than the one the previous session ended in",
              "session %s ended with (market, running, time) %s; before-session hook of session %s saw %s" % (last_after[3], list(last_after[4]), e[3], list(e[4])))
            if any(a[1] != b[1] for a, b in zip(_mode_of(cfg, last_after[3], e[4]), _mode_of(cfg, e[3], e[4]))):
                w.wit.inc("before_session_hook_at_mode_change")
    # a price written by a before-order hook is the price that gets accepted (after tick rounding)
    altered = {id(e[1]): e[2] for e in w.ev if e[0] == "altered"}
    if altered:
        import math
        for e in w.ev:
            if e[0] == "acc" and id(e[3]) in altered:
                p = altered[id(e[3])]
                tick = cfg_tick(sim, e[1])
                want = (math.floor(p / tick) if e[2].is_buy else math.ceil(p / tick)) * tick
                V(e[2].price == want, "C13.alter", "a price written by a before-order hook is not the price that was accepted",
                  "written %s accepted %s expected %s" % (p, e[2].price, want))
                w.wit.inc("altered_order_accepted")
