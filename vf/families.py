"""Cross-family scenarios: the scenario families built for the event / index / clock properties, re-used
(at a small deviation bound) by the acceptors of the generic run-loop properties C05, C09, C10, C11.
A defect in how fills are settled, logged or notified often needs a halt, a shock, an index market or a
rule to be configured; those shapes already exist in the other families."""
import copy


# deviation bound of the cross-family runs in both tiers: bound 2 over some 250 scenarios took hours per check and
# there are six such checks; the thorough tier widens the selection of scenarios instead
CROSS_BOUND = 1


def _compose(a, b):
    if a is None:
        return b
    if b is None:
        return a

    def obs(w, label):
        a(w, label)
        b(w, label)
    return obs


def cross_family(tier, observer=None, with_no_logger=True):
    from .props import c06, c09, c13, c14, c15, c16, c17
    sc = {}

    wide = tier != "quick"  # thorough tier: every scenario of every family (still at the small bound, see CROSS_BOUND)

    def add(tag, scns, keep=None):
        for name, s in scns.items():
            if keep is not None and not wide and not keep(name):
                continue
            s2 = copy.copy(s)
            s2.name = "x:%s:%s" % (tag, name)
            s2.observer = _compose(s.observer, observer)
            sc[s2.name] = s2

    from .scenarios_r import logger_variants
    add("base", logger_variants())
    add("c09", c09.scenarios(tier), keep=lambda n: n[0] in "IJK")
    add("c13", c13.halt_scenarios())
    if wide:
        add("c13s", c13.single_scenarios())
    add("c14", c14.scenarios(tier), keep=lambda n: n.startswith("both:") or n.startswith("mistake+limit") or n.startswith("two_fshocks") or "shock+" in n or ("-t1-" in n and "-on" in n and ("-r0.5" in n or "-hft" in n)))
    add("c15", c15.scenarios(tier), keep=lambda n: n.startswith("two_rules") or n.startswith("prefix_names") or ("-r0.25-tick1.0-" in n and (n.endswith("-on") or n.endswith("-hft_agent") or "other_events" in n)))
    add("c16", c16.scenarios(tier), keep=lambda n: "-L2-" in n or "-L2" in n or "sweep" in n or "two_tier" in n or "step0" in n)
    add("c17", c17.scenarios(tier))
    add("c06", c06.scenarios(tier), keep=lambda n: not n.startswith("sess:2s") or "True, True" in n)
    if not with_no_logger:
        sc = {k: v for k, v in sc.items() if v.meta.get("logger") != "none"}
    return sc
