"""Scenario library for Engine R: base scenarios whose *default* programs already trade, so that
low-deviation executions are not vacuous."""
from .explore_r import Scenario, S, bl, sl, bm, sm, mkcfg

CL = ["C", "oldest_live"]
CD = ["C", "dead"]

# batches a scripted normal agent can return (index 0..)
MENU_N = [[], [bl(0, 101)], [sl(0, 99)], [bl(0, 99)], [sl(0, 101)], [bm(0)], [CL], [bl(0, 100, 2, 1), sl(0, 100, 1, 1)]]
MENU_H = [[], [bl(0, 99), sl(0, 101)], [bl(0, 101)], [sl(0, 99)], [sm(0)], [CL]]
# richer menu: ttl orders (expiry), cancels of dead orders, self-crossing
MENU_X = [[], [bl(0, 101, 1, 1)], [sl(0, 99, 1, 1)], [bl(0, 100, 2)], [sl(0, 100, 2)], [sm(0, 2)], [CL], [CD],
          [bl(0, 100, 1), sl(0, 100, 1)]]


def agents(nn, nh, menu_n=MENU_N, menu_h=MENU_H, prog_n=None, prog_h=None, markets=None):
    out = []
    prog_n = prog_n or [[1], [2], [3]]
    for i in range(nn):
        out.append(dict(name="A%d" % i, cls="ScriptedAgent", menu=menu_n, program=prog_n[i % len(prog_n)], markets=markets or ["M0"]))
    prog_h = prog_h or [[1], [0]]
    for i in range(nh):
        out.append(dict(name="H%d" % i, cls="ScriptedHFAgent", menu=menu_h, program=prog_h[i % len(prog_h)], markets=markets or ["M0"]))
    return out


def base_family(observer=None):
    """Scenarios shared by C05/C09/C10/C11 (session rules, HFT interleaving, multi-fill rounds)."""
    sc = {}

    def add(name, sessions, ags, **kw):
        ev = kw.pop("events", None)
        mk = kw.pop("markets", None)
        sc[name] = Scenario(name, mkcfg(sessions, markets=mk, agents=ags, events=ev), observer=observer, **kw)

    add("A_noexec_then_exec", [S(0, 2, True, False, maxNormalOrders=2, maxHighFrequencyOrders=1, highFrequencySubmitRate=0.5),
                               S(1, 2, True, True, maxNormalOrders=1, maxHighFrequencyOrders=1, highFrequencySubmitRate=0.5)],
        agents(2, 1))
    add("B_noplacement_then_hft2", [S(0, 1, False, False), S(1, 3, True, True, maxNormalOrders=2, maxHighFrequencyOrders=2,
                                                                 highFrequencySubmitRate=1.0)],
        agents(2, 2, prog_h=[[1], [2]]))
    add("C_cap0_and_rate0", [S(0, 2, True, True, maxNormalOrders=0, maxHighFrequencyOrders=1),
                             S(1, 2, True, True, maxNormalOrders=3, maxHighFrequencyOrders=0, highFrequencySubmitRate=0.0)],
        agents(3, 1))
    add("D_exec_without_placement", [S(0, 2, True, False, maxNormalOrders=2), S(1, 2, False, True), S(2, 1, True, True, maxNormalOrders=2)],
        agents(2, 1))
    add("L_hft_caps", [S(0, 2, True, True, maxNormalOrders=2, maxHighFrequencyOrders=0, highFrequencySubmitRate=1.0),
                       S(1, 2, True, True, maxNormalOrders=2, maxHighFrequencyOrders=1, highFrequencySubmitRate=1.0)],
        agents(2, 2, prog_h=[[1], [3]]))
    add("E_default_caps", [S(0, 3, True, True)], agents(3, 0, prog_n=[[1], [2], [7]]))
    add("F_only_hft", [S(0, 2, True, True, maxNormalOrders=2, maxHighFrequencyOrders=2)], agents(0, 2))
    # a round of >= 4 fills: book crossed during a no-execution session, cleared by the first order of the next
    g_ags = agents(3, 0, menu_n=MENU_X, prog_n=[[3, 1, 3], [4, 4, 2], [3, 4, 0]])
    g_ags[1]["rebind_holdings"] = True
    add("G2_crossed_then_cleared_holdings_rebound", [S(0, 3, True, False, maxNormalOrders=3), S(1, 2, True, True, maxNormalOrders=1)], g_ags)
    add("G_crossed_then_cleared", [S(0, 3, True, False, maxNormalOrders=3), S(1, 2, True, True, maxNormalOrders=1)],
        agents(3, 0, menu_n=MENU_X, prog_n=[[3, 1, 3], [4, 4, 2], [3, 4, 0]]))
    # expiries, incl. at the very last clock step; cancels of dead orders; self-trades
    add("H_ttl_and_self_trade", [S(0, 2, True, True, maxNormalOrders=2, maxHighFrequencyOrders=1, highFrequencySubmitRate=0.5),
                                 S(1, 2, True, True, maxNormalOrders=2, maxHighFrequencyOrders=1)],
        agents(2, 1, menu_n=MENU_X, prog_n=[[8, 1, 7, 1], [2, 6, 2, 2]], prog_h=[[1, 5]]))
    # limit prices of exactly zero (accepted with a warning): fills at price 0 still move shares
    menu0 = [[], [bl(0, 0.0, 3)], [sl(0, 0.0, 2)], [bl(0, 100)], [sl(0, 100)], [sm(0, 1)], [bm(0, 1)], [CL]]
    add("O_zero_price_fills", [S(0, 1, True, False, maxNormalOrders=2), S(1, 3, True, True, maxNormalOrders=2)],
        [dict(name="A0", menu=menu0, program=[1, 3, 5, 1], markets=["M0"]), dict(name="A1", menu=menu0, program=[2, 4, 2, 6], markets=["M0"])])
    # two plain markets + an index market; orders, cancels and fills on all of them, an HFT agent on the index
    mk3 = [dict(name="M0", shares=1), dict(name="M1", shares=2), dict(name="IDX", cls="ProbeIndexMarket", components=["M0", "M1"])]
    menu3 = [[], [bl(0, 101)], [sl(0, 99)], [bl(1, 101, 2)], [sl(1, 99, 2)], [bl(2, 101)], [sl(2, 99)], [CL], [bl(0, 100), sl(1, 100), bl(2, 100)],
             [sm(1, 1)]]
    menu3h = [[], [bl(2, 99), sl(2, 101)], [sl(2, 99)], [bm(1, 2)], [CL]]
    add("M_three_markets_index", [S(0, 2, True, False, maxNormalOrders=2, maxHighFrequencyOrders=1), S(1, 3, True, True, maxNormalOrders=2, maxHighFrequencyOrders=1)],
        [dict(name="A0", menu=menu3, program=[1, 3, 5, 7, 8], markets=["M0", "M1", "IDX"]),
         dict(name="A1", menu=menu3, program=[2, 4, 6, 4, 2], markets=["M0", "M1", "IDX"]),
         dict(name="H0", cls="ScriptedHFAgent", menu=menu3h, program=[1, 2, 3], markets=["M0", "M1", "IDX"])], markets=mk3)
    # a halt that really happens in the middle of a step: the first batch's order trades through the halt line, the
    # second batch then submits crossing orders to the halted market and to another market
    menu_h2 = [[], [bl(0, 101)], [sl(0, 102)], [sl(0, 101)], [bl(0, 102)], [bl(1, 101)], [sl(1, 101)], [bl(0, 102), sl(1, 101)], [CL]]
    add("N_halt_in_mid_step", [S(0, 1, True, False, maxNormalOrders=2), S(1, 4, True, True, maxNormalOrders=2, maxHighFrequencyOrders=1, events=["halt"])],
        [dict(name="A0", menu=menu_h2, program=[1, 3, 5, 0, 1], markets=["M0", "M1"]),
         dict(name="A1", menu=menu_h2, program=[2, 7, 6, 0, 2], markets=["M0", "M1"]),
         dict(name="H0", cls="ScriptedHFAgent", menu=menu_h2, program=[0, 4, 0], markets=["M0", "M1"])],
        markets=[dict(name="M0"), dict(name="M1")],
        events={"halt": {"class": "TradingHaltRule", "targetMarkets": ["M0"], "triggerChangeRate": 0.01, "haltingTimeLength": 1}},
        meta=dict(halt_targets=["M0"]))
    # a configured session of zero steps between two trading sessions
    add("S_zero_step_session", [S(0, 2, True, True, maxNormalOrders=2), S(1, 0, True, True), S(2, 2, True, True, maxNormalOrders=1)], agents(2, 0))
    # agents that run out of cash and of shares: balances go below zero (nothing in the accounting model stops at zero)
    poor = agents(2, 1, menu_n=MENU_X, prog_n=[[3, 1, 3, 1], [4, 4, 2, 2]], prog_h=[[1, 5]])
    for a_ in poor:
        a_.update(cash=150, asset=1)
    poor[0]["rebind_holdings"] = True  # one of them replaces its holdings containers in setup (after it was registered)
    add("R_agents_overdrawn", [S(0, 2, True, False, maxNormalOrders=2), S(1, 3, True, True, maxNormalOrders=2, maxHighFrequencyOrders=1)], poor)
    # the numeric settings int-typed, as a JSON configuration written without decimal points produces them
    add("P_int_typed_config", [S(0, 2, True, False, maxNormalOrders=2, maxHighFrequencyOrders=1, highFrequencySubmitRate=1),
                               S(1, 2, True, True, maxNormalOrders=1, maxHighFrequencyOrders=1, highFrequencySubmitRate=1)],
        agents(2, 1), markets=[dict(name="M0", tick=1, price=100)])
    return sc


def logger_variants(observer=None):
    """runs of the base family observed by a user-style collecting logger that is falsy while empty, and by no
    logger at all (the probes record everything the acceptors other than C10's need)"""
    import copy
    sc = base_family(observer)
    out = {}
    for base, kind in (("A_noexec_then_exec", "sized"), ("H_ttl_and_self_trade", "sized"), ("H_ttl_and_self_trade", "layered"),
                       ("M_three_markets_index", "layered"), ("A_noexec_then_exec", "none"),
                       ("H_ttl_and_self_trade", "writeonly"), ("G_crossed_then_cleared", "writeonly"), ("G_crossed_then_cleared", "layered"),
                       ("M_three_markets_index", "none"), ("N_halt_in_mid_step", "none")):
        s2 = copy.copy(sc[base])
        s2.name = "%s:%s_logger" % (base, "no" if kind == "none" else kind)
        s2.meta = dict(s2.meta, logger=kind)
        out[s2.name] = s2
    # every scripted agent is a falsy object (an empty container) throughout the run
    for base in ("A_noexec_then_exec", "H_ttl_and_self_trade", "L_hft_caps", "M_three_markets_index"):
        s2 = copy.copy(sc[base])
        s2.name = "%s:falsy_agents" % base
        s2.cfg = copy.deepcopy(s2.cfg)
        for v in s2.cfg.values():
            if isinstance(v, dict) and "menu" in v:
                v["falsy"] = True
        out[s2.name] = s2
    # the settings object handed to the runner has already been used by an earlier runner
    for base in ("A_noexec_then_exec", "C_cap0_and_rate0", "L_hft_caps", "E_default_caps"):
        s2 = copy.copy(sc[base])
        s2.name = "%s:settings_used_before" % base
        s2.meta = dict(s2.meta, settings_used_before=True)
        out[s2.name] = s2
    return out
