"""./check <ID> [--tier quick|thorough] [--replay <file>]"""
import argparse
import importlib
import json
import os
import sys
import traceback


def main(argv=None):
    ap = argparse.ArgumentParser()
    ap.add_argument("property_id")
    ap.add_argument("--tier", default=os.environ.get("VERIF_TIER", "quick"), choices=["quick", "thorough"])
    ap.add_argument("--replay", default=None)
    a = ap.parse_args(argv)
    pid = a.property_id.upper()
    try:
        seed = int(os.environ.get("VERIF_SEED", "0"))
    except ValueError:
        seed = 0
    from . import common

    common.import_pams()
    try:
        mod = importlib.import_module("vf.props.%s" % pid.lower())
    except ModuleNotFoundError:
        print("no check for property %s" % pid)
        return 2
    try:
        if a.replay:
            payload = json.load(open(a.replay))
            return mod.replay(payload)
        res = mod.run(a.tier, seed)
        return res.finish()
    except common.HarnessError as e:
        print("HARNESS-ERROR %s: %s" % (pid, e))
        return 2
    except Exception:
        traceback.print_exc()
        print("HARNESS-ERROR %s: uncaught exception in harness" % pid)
        return 2


if __name__ == "__main__":
    sys.exit(main())
