"""C05: cash and shares are conserved; holdings equal endowment plus own fills -- Engine R."""
from ._r import run_r, replay_r
from ..acceptors_r import acc_C05, make_holdings_observer
from ..scenarios_r import base_family

WIT = ["round_with_fills", "multi_fill_round", "round_with_4_fills", "self_trade", "fill_at_price_zero", "observation_points"]
RULE = ("deviation-bounded enumeration of all executions of the real SequentialRunner around each base scenario (every "
        "permutation handed out by sample(), every rate draw, every menu choice of every scripted agent); at every observation point (each consultation, callback, step record, and the end of the run) every agent's cash and share positions are compared with its endowment folded in order with the ground-truth fills so far, and totals are checked for conservation; "
        "distinct = distinct outcome digests; plus the simulator's settlement call driven directly with every registration order of agent ids (also non-contiguous ids) x market ids x all buyer/seller/market combinations incl. self-trades and price 0")


def scenarios(tier):
    return base_family(make_holdings_observer())


def on_exc(w):
    return ("C05.run_aborted", "the run aborted with %s: %s" % (type(w.exc).__name__, str(w.exc)[:80]))


# ------------------------------------------------------------------------------------------------
# the simulator's settlement driven directly (agent / market ids that are not 0..n-1 in registration order)


def direct_cases():
    import itertools
    for agent_ids in list(itertools.permutations((0, 1, 2))) + [(5, 9, 7), (2, 0, 7)]:
        for market_ids in ((0, 1), (3, 1)):
            for batch in ("one_call", "call_per_fill"):
                yield (agent_ids, market_ids, batch)


def direct_fn(case, wit):
    import random
    from ..common import Violation
    from pams.agents import Agent
    from pams.logs import ExecutionLog
    from pams.market import Market
    from pams.simulator import Simulator
    agent_ids, market_ids, batch = case

    class A(Agent):
        def submit_orders(self, markets):
            return []
    sim = Simulator(prng=random.Random(0))
    for mid in market_ids:
        m = Market(mid, random.Random(mid), sim, "m%d" % mid)
        m.setup({"tickSize": 1.0, "marketPrice": 100.0})
        sim._add_market(m)
    exp = {}
    for k, aid in enumerate(agent_ids):
        a = A(aid, random.Random(aid), sim, "a%d" % aid)
        a.setup({"cashAmount": 1000 * (k + 1), "assetVolume": 10 * (k + 1)}, list(market_ids))
        sim._add_agent(a)
        exp[aid] = [float(1000 * (k + 1)), {mid: 10 * (k + 1) for mid in market_ids}]
    fills = []
    n = 0
    for b in agent_ids:
        for s_ in agent_ids:
            for mid in market_ids:
                n += 1
                price, vol = (0.0 if n % 5 == 0 else 100.5 + n), 1 + n % 3
                fills.append(ExecutionLog(market_id=mid, time=0, buy_agent_id=b, sell_agent_id=s_, buy_order_id=2 * n, sell_order_id=2 * n + 1,
                                          price=price, volume=vol))
                exp[b][0] -= price * vol
                exp[s_][0] += price * vol
                exp[b][1][mid] += vol
                exp[s_][1][mid] -= vol
    if batch == "one_call":
        sim._update_agents_for_execution(execution_logs=fills)
    else:
        for l in fills:
            sim._update_agents_for_execution(execution_logs=[l])
    for a in sim.agents:
        want = exp[a.agent_id]
        got = (a.get_cash_amount(), {mid: a.get_asset_volume(mid) for mid in market_ids})
        if abs(got[0] - want[0]) > 1e-9 * max(1.0, abs(want[0])) or got[1] != want[1]:
            raise Violation("C05.direct_settlement", "after the simulator settled a list of fills an agent's holdings differ from its endowment folded with its own fills",
                            "agents registered with ids %s, markets %s: agent %s has %r expected %r" % (agent_ids, market_ids, a.agent_id, got, (want[0], want[1])))
    wit.inc("direct_settlement_cases")
    return (agent_ids == tuple(sorted(agent_ids)), market_ids, batch)


def run(tier, seed):
    from ..families import cross_family
    res = run_r("C05", tier, seed, scenarios(tier), [acc_C05], 2 if tier == "quick" else 3, on_exc, WIT, RULE)
    run_r("C05", tier, seed, cross_family(tier, observer=make_holdings_observer()), [acc_C05], 1, on_exc, [], RULE, res=res, label="cross_family", split=0)
    from ..enum_f import run_grid
    ev0, dn0 = res.coverage["evaluations"], res.coverage["distinct_nontrivial"]
    run_grid(res, "direct_settlement", list(direct_cases()), direct_fn, seed)
    res.require_witness(["direct_settlement_cases"])
    return res


def replay(payload):
    if payload.get("engine") == "F":
        from ..common import Violation, Counter
        c = payload["case"]
        try:
            direct_fn((tuple(c[0]), tuple(c[1]), c[2]), Counter())
        except Violation as v:
            print("  ==> VIOLATION %s: %s" % (v.monitor, v.msg))
            print("VIOLATION property=C05 replay=(this file)")
            return 1
        print("replay: no violation on this tree")
        return 0
    from ..families import cross_family
    sc = scenarios("thorough")
    sc.update(cross_family("thorough", observer=make_holdings_observer()))
    return replay_r(sc, [acc_C05], on_exc, payload)
