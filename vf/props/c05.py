"""C05: cash and shares are conserved; holdings equal endowment plus own fills -- Engine R."""
from ._r import run_r, replay_r
from ..acceptors_r import acc_C05, make_holdings_observer
from ..scenarios_r import base_family

WIT = ["round_with_fills", "multi_fill_round", "round_with_4_fills", "self_trade", "fill_at_price_zero", "observation_points"]
RULE = ("deviation-bounded enumeration of all executions of the real SequentialRunner around each base scenario (every "
        "permutation handed out by sample(), every rate draw, every menu choice of every scripted agent); at every observation point (each consultation, callback, step record, and the end of the run) every agent's cash and share positions are compared with its endowment folded in order with the ground-truth fills so far, and totals are checked for conservation; "
        "distinct = distinct outcome digests")


def scenarios(tier):
    return base_family(make_holdings_observer())


def on_exc(w):
    return ("C05.run_aborted", "the run aborted with %s: %s" % (type(w.exc).__name__, str(w.exc)[:80]))


def run(tier, seed):
    from ..families import cross_family
    res = run_r("C05", tier, seed, scenarios(tier), [acc_C05], 2 if tier == "quick" else 3, on_exc, WIT, RULE)
    run_r("C05", tier, seed, cross_family(tier, observer=make_holdings_observer()), [acc_C05], 1 if tier == "quick" else 2, on_exc, [], RULE, res=res, label="cross_family", split=0)
    return res


def replay(payload):
    from ..families import cross_family
    sc = scenarios("thorough")
    sc.update(cross_family("thorough", observer=make_holdings_observer()))
    return replay_r(sc, [acc_C05], on_exc, payload)
