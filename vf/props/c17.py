"""C17: index market values are share-weighted averages of their components -- Engine R (+F)."""
from .. import common
from ._r import run_r, replay_r
from ..acceptors_r2 import acc_C17, make_index_observers, wavg, close
from ..explore_r import Scenario, S, mkcfg, bl, sl, bm, sm, run_once, IndexMarket

WIT = ["index_clock_advances", "index_read_while_components_are_ahead", "unequal_shares", "three_components", "past_time_with_unequal_component_prices",
       "index_observations"]
RULE = ("share vectors from {1,2,5}^n (n = 2, 3) x index market listed directly after its components or followed by a further "
        "plain market, or moved to the front of the market list, or itself a component of a second index market (its own price differing from its basket) x all executions within the deviation bound of trading programs "
        "that move component prices, with drift and a fundamental shock on a component; at every observation point every "
        "past and current index value is recomputed from the components, and at every clock advance the recorded index "
        "fundamental is compared with the weighted average for the new time; distinct = outcome digests")


def menu(nc):
    out = [[]]
    for mi in range(nc):
        out += [[bl(mi, 104)], [sl(mi, 104)], [bl(mi, 96)], [sl(mi, 96)]]
    out += [[bm(0)], [sm(1)]]
    return out


def mk(name, shares, extra_market=False, index_first=False, shock=True, drift=True, noexec_first=False, nested=False, arb=False, halt=False, requires=False):
    nc = len(shares)
    markets = [dict(name="M%d" % i, shares=sh, drift=(2.0 ** -7 if i == 1 and drift else 0.0)) for i, sh in enumerate(shares)]
    markets.append(dict(name="IDX", cls="ProbeIndexMarket", components=["M%d" % i for i in range(nc)]))
    if nested:
        # an index market that is itself a component of a second index market; its own traded price (110)
        # differs from the value of its basket (100)
        markets[-1].update(shares=4, price=110.0)
        markets.append(dict(name="J", cls="ProbeIndexMarket", components=["IDX", "M1"]))
    if extra_market:
        markets.append(dict(name="X", shares=3))
    mn = menu(nc)
    # default programs: trade M0 at 104 in step 1, M1 at 96 in step 2, (M2 at 104 in step 3)
    pa = [0, 1, 7, 0, 1]
    pb = [0, 2, 8, 0, 2]
    if nc == 3:
        pa = [0, 1, 7, 9, 1]
        pb = [0, 2, 8, 10, 2]
    if noexec_first:
        # quotes built on M0 during a non-executing session (mid 101 != frozen price 100); the first executing
        # step only touches M1, so M0's price changes at a clock advance without any book event
        mn = mn + [[bl(0, 98)], [sl(0, 104)]]
        k = len(mn)
        pa = [k - 2, 0, 7, 0, 1]
        pb = [k - 1, 0, 8, 0, 2]
    names = [m["name"] for m in markets]
    ags = [dict(name="A0", menu=mn, program=pa, markets=names), dict(name="A1", menu=mn, program=pb, markets=names)]
    ev = {}
    s0 = dict(maxNormalOrders=2)
    if shock:
        ev["SH"] = {"class": "FundamentalPriceShock", "target": "M0", "triggerTime": 2, "priceChangeRate": 0.5, "shockTimeLength": 1}
        s0["events"] = ["SH"]
    if halt:
        # a trading halt rule on the first component only: it fires when M0 trades at 104 (4 % off its time-0 price), so for
        # a while the components of the index are in different running states
        ev["HALT"] = {"class": "TradingHaltRule", "targetMarkets": ["M0"], "triggerChangeRate": 0.03125, "haltingTimeLength": 2}
        s0["events"] = s0.get("events", []) + ["HALT"]
    sessions = [S(0, 3, True, True, **s0), S(1, 2, True, True, maxNormalOrders=2)]
    if noexec_first:
        sessions = [S(0, 2, True, False, **s0), S(1, 3, True, True, maxNormalOrders=2)]
    obs, after_clock = make_index_observers()

    def post_setup(w):
        if index_first:
            ms = w.runner.simulator.markets
            idx = [m for m in ms if isinstance(m, IndexMarket)]
            for m in idx:
                ms.remove(m)
                ms.insert(0, m)

    cfg = mkcfg(sessions, markets=markets, agents=ags, events=ev)
    if requires:
        # the deprecated "requires" key (markets that must exist before the index) names one market more than "markets"
        cfg["IDX"]["requires"] = list(cfg["IDX"]["markets"]) + ["X"]
    if arb:
        # built-in agents that read the index market while the run goes on: an arbitrage agent that may trade the index
        # and only its first component (threshold too high to ever trade), and an FCN agent on the index
        cfg["ARB"] = {"class": "ArbitrageAgent", "markets": ["IDX", "M0"], "cashAmount": 10000, "assetVolume": 50, "orderVolume": 1,
                      "orderThresholdPrice": 1e9}
        cfg["simulation"]["agents"].append("ARB")
        for s_ in cfg["simulation"]["sessions"]:
            s_["maxHighFrequencyOrders"] = 1
    return Scenario(name, cfg, observer=obs, after_clock=after_clock, post_setup=post_setup)


def scenarios(tier):
    sc = {}
    for shares in ((1, 2), (2, 5), (5, 1), (2, 2), (1, 2, 5), (5, 5, 1)):
        for extra in (False, True):
            n = "index:%s%s" % ("-".join(map(str, shares)), "+X" if extra else "")
            sc[n] = mk(n, shares, extra_market=extra)
    # constant fundamentals (no drift, no volatility) except for the shock on one component
    sc["index_nodrift:1-2"] = mk("index_nodrift:1-2", (1, 2), drift=False)
    sc["index_nodrift:2-5-1+X"] = mk("index_nodrift:2-5-1+X", (2, 5, 1), extra_market=True, drift=False)
    sc["noexec_first:1-2"] = mk("noexec_first:1-2", (1, 2), noexec_first=True, shock=False)
    sc["noexec_first:2-5-1"] = mk("noexec_first:2-5-1", (2, 5, 1), noexec_first=True)
    sc["nested:1-2"] = mk("nested:1-2", (1, 2), nested=True)
    sc["nested:2-5-1+X"] = mk("nested:2-5-1+X", (2, 5, 1), nested=True, extra_market=True, noexec_first=True)
    sc["arbitrage_agent_partial_access:2-2"] = mk("arbitrage_agent_partial_access:2-2", (2, 2), arb=True)
    sc["arbitrage_agent_partial_access:5-5-5+X"] = mk("arbitrage_agent_partial_access:5-5-5+X", (5, 5, 5), arb=True, extra_market=True, noexec_first=True)
    sc["requires_names_an_extra_market:1-2+X"] = mk("requires_names_an_extra_market:1-2+X", (1, 2), extra_market=True, requires=True)
    sc["component_halted:1-2"] = mk("component_halted:1-2", (1, 2), halt=True)
    sc["component_halted:2-5-1+X"] = mk("component_halted:2-5-1+X", (2, 5, 1), halt=True, extra_market=True)
    sc["index_first:1-2-5"] = mk("index_first:1-2-5", (1, 2, 5), index_first=True)
    sc["index_first:2-5+X"] = mk("index_first:2-5+X", (2, 5), extra_market=True, index_first=True)
    return sc


def invalid_component_sets(res):
    """invalid component sets must be rejected at set-up"""
    cases = {
        "repeated_component": [dict(name="M0", shares=1), dict(name="M1", shares=2), dict(name="IDX", cls="ProbeIndexMarket", components=["M0", "M0"])],
        "component_without_shares": [dict(name="M0", shares=1), dict(name="M1"), dict(name="IDX", cls="ProbeIndexMarket", components=["M0", "M1"])],
        "unknown_component": [dict(name="M0", shares=1), dict(name="IDX", cls="ProbeIndexMarket", components=["M0", "NOPE"])],
        "index_before_components": [dict(name="IDX", cls="ProbeIndexMarket", components=["M0", "M1"]), dict(name="M0", shares=1), dict(name="M1", shares=2)],
    }
    out = {}
    for name, markets in cases.items():
        ags = [dict(name="A0", menu=[[]], markets=["M0"])]
        scn = Scenario(name, mkcfg([S(0, 1, True, True)], markets=markets, agents=ags))
        w = run_once(scn, [])
        out[name] = type(w.exc).__name__ if w.exc is not None else "accepted"
        if w.exc is None and name != "index_before_components":
            res.add_violation("C17.invalid_components", "an invalid component set was accepted at set-up", "C17.invalid:" + name,
                              dict(engine="R", scenario="invalid:" + name, choices=[]))
    res.coverage["invalid_component_sets"] = out


# ------------------------------------------------------------------------------------------------
# direct driving of Simulator / Market / IndexMarket: evaluations interleaved with clock advances, trades,
# a component added later and outstanding shares revised (not reachable through a runner configuration)

D_OPS = [("eval",), ("adv",), ("adv_c",), ("adv_i",), ("add",), ("shares", 0, 5), ("shares", 1, 1), ("trade", 0, 104.0), ("trade", 1, 96.0), ("trade", 2, 108.0),
         # resting quotes: a never-traded component's market price follows its mid price, which moves without any fill
         ("quote", 0, 98.0, 106.0), ("quote", 1, 94.0, 100.0), ("bid", 0, 102.0),
         # a component stopped / restarted while the others keep running
         ("run", 0), ("run", 1)]


class DWorld:
    def __init__(self):
        import random
        from pams.simulator import Simulator
        from pams.market import Market
        from pams.order import Order, LIMIT_ORDER
        self.Order, self.LIMIT = Order, LIMIT_ORDER
        sim = Simulator(prng=random.Random(0))
        self.sim = sim
        self.ms = []
        for i, (sh, p0) in enumerate(((1, 100.0), (2, 100.0), (5, 100.0))):
            m = Market(i, random.Random(i), sim, "M%d" % i)
            m.setup({"tickSize": 1.0, "marketPrice": p0, "outstandingShares": sh})
            sim._add_market(m)
            sim.fundamentals.add_market(i, 100.0 + 10 * i, 2.0 ** -7 * i, 0.0)
            self.ms.append(m)
        idx = IndexMarket(3, random.Random(9), sim, "IDX")
        idx.setup({"tickSize": 1.0, "marketPrice": 100.0, "markets": ["M0", "M1"]})
        sim._add_market(idx)
        self.idx = idx
        self.added = False
        self.split = False  # True: the components' clocks are one step ahead of the index market's (between the two halves of a step)
        self.wit = common.Counter()
        self.adv()
        for m in self.ms + [idx]:
            m._is_running = True

    def adv(self):
        if self.split:
            self.sim._update_time_on_market(self.idx)  # the components went ahead before (op adv_c)
            self.split = False
        else:
            self.sim._update_times_on_markets(self.sim.markets)
        t = self.idx.get_time()
        comps = self.ms[:3] if self.added else self.ms[:2]
        want = wavg([(c.outstanding_shares, c.get_fundamental_price(t)) for c in comps])
        got = self.idx.get_fundamental_price(t)
        if not close(got, want, 1e-12):
            raise common.Violation("C17.fundamental", "the fundamental value an index market records at a clock advance is not the share-weighted average of its components' fundamentals for the new time",
                                   "t=%d got %r expected %r (%d components)" % (t, got, want, len(comps)))
        self.wit.inc("direct_clock_advances")

    def apply(self, op):
        k = op[0]
        if k == "adv":
            self.adv()
        elif k == "adv_c":
            # first half of a step: the plain markets are stepped, the index market not yet (what a custom loop, or anything
            # looking at the index from inside a component's clock update, sees)
            if self.split:
                return False
            for m in self.ms:
                self.sim._update_time_on_market(m)
            self.split = True
            self.wit.inc("components_one_step_ahead_of_the_index")
        elif k == "adv_i":
            # somebody steps the index market BEFORE its components: it must either refuse (and stay where it is) or record
            # the weighted average of the components' fundamentals for the NEW time all the same
            if self.split:
                return False
            t = self.idx.get_time()
            try:
                self.sim._update_time_on_market(self.idx)
            except Exception:  # noqa
                if self.idx.get_time() != t:
                    raise common.Violation("C17.order", "an index market stepped before its components refused but moved its clock", "t=%d -> %d" % (t, self.idx.get_time()))
                self.wit.inc("index_stepped_before_components_refused")
                self.check()
                return True
            comps = self.ms[:3] if self.added else self.ms[:2]
            want = wavg([(c.outstanding_shares, self.sim.fundamentals.get_fundamental_price(c.market_id, t + 1)) for c in comps])
            got = self.idx.get_fundamental_price(t + 1)
            if not close(got, want, 1e-12):
                raise common.Violation("C17.fundamental", "an index market stepped before its components recorded a fundamental value that is not the share-weighted average of the components' fundamentals for the new time",
                                       "t=%d got %r expected %r" % (t + 1, got, want))
            return False  # (an implementation that can do this correctly leaves the lock-step world: not explored further)
        elif k == "add":
            if self.added:
                return False
            self.idx._add_market(self.ms[2])
            self.added = True
            self.wit.inc("component_added_after_evaluation")
        elif k == "shares":
            if self.ms[op[1]].outstanding_shares == op[2]:
                return False
            self.ms[op[1]].outstanding_shares = op[2]
            self.wit.inc("shares_revised_after_evaluation")
        elif k in ("trade", "quote", "bid") and not self.ms[op[1]].is_running:
            return False  # no matching on a stopped market
        elif k == "trade":
            m = self.ms[op[1]]
            m._add_order(self.Order(0, m.market_id, True, self.LIMIT, 1, price=op[2]))
            m._add_order(self.Order(0, m.market_id, False, self.LIMIT, 1, price=op[2]))
            m._execution()
        elif k == "run":
            self.ms[op[1]]._is_running = not self.ms[op[1]]._is_running
            self.wit.inc("component_running_state_changed")
        elif k == "quote":
            m = self.ms[op[1]]
            if m.get_best_buy_price() is not None or m.get_best_sell_price() is not None:
                return False
            m._add_order(self.Order(0, m.market_id, True, self.LIMIT, 1, price=op[2]))
            m._add_order(self.Order(0, m.market_id, False, self.LIMIT, 1, price=op[3]))
            m._execution()
            self.wit.inc("component_quoted_without_trade")
        elif k == "bid":
            m = self.ms[op[1]]
            a = m.get_best_sell_price()
            if a is None or a <= op[2] or m.get_best_buy_price() == op[2]:
                return False
            m._add_order(self.Order(0, m.market_id, True, self.LIMIT, 1, price=op[2]))
            m._execution()
        self.check()
        return True

    def check(self):
        idx = self.idx
        t = idx.get_time()
        comps = self.ms[:3] if self.added else self.ms[:2]
        for s_ in list(range(0, t + 1)) + [None]:
            ss = t if s_ is None else s_
            want = wavg([(c.outstanding_shares, c.get_market_price(ss)) for c in comps])
            for name in ("get_index", "get_market_index", "compute_market_index"):
                got = getattr(idx, name)(s_) if s_ is not None else getattr(idx, name)()
                if not close(got, want, 1e-12):
                    raise common.Violation("C17.index", "an index value differs from the share-weighted average of the components' market prices at that time",
                                           "%s(%s) at t=%d: got %r expected %r (%d components, shares %s)" % (name, s_, t, got, want, len(comps), [c.outstanding_shares for c in comps]))
            self.wit.inc("direct_index_evaluations")

    def canon(self):
        idx = self.idx
        t = idx.get_time()
        return (t, self.split, self.added, tuple(m.outstanding_shares for m in self.ms), tuple(tuple(m.get_market_prices()) for m in self.ms),
                tuple((m.get_best_buy_price(), m.get_best_sell_price()) for m in self.ms), tuple(m.is_running for m in self.ms))


def direct_search(res, depth):
    from ..acceptors_r2 import close as _c  # noqa
    seen = set()
    frontier = [()]
    trans = 0
    wit = common.Counter()
    for d in range(depth + 1):
        nxt = []
        for h in frontier:
            for oi in range(len(D_OPS)):
                nh = h + (oi,)
                try:
                    w = DWorld()
                    w.check()
                    ok = True
                    for i in nh:
                        if w.apply(D_OPS[i]) is False:
                            ok = False
                            break
                except common.Violation as v:
                    trans += 1
                    res.add_violation(v.monitor, v.msg, "%s:%s" % (v.monitor, v.msg.split(" | ")[0].replace(" ", "_")[:60]),
                                      dict(engine="F", grid="direct_index_api", history=[list(D_OPS[i]) for i in nh]))
                    continue
                if not ok:
                    continue
                trans += 1
                wit.merge(w.wit)
                c = common.digest(w.canon())
                if c not in seen:
                    seen.add(c)
                    nxt.append(nh)
        frontier = nxt
        if d == depth - 1:
            break
    cov = res.coverage
    cov["direct_index_api"] = dict(ops=len(D_OPS), depth=depth, states=len(seen), transitions=trans)
    cov["states"] = cov.get("states", 0) + len(seen)
    cov["transitions"] = cov.get("transitions", 0) + trans
    wc = cov.setdefault("witness_classes", {})
    for k, v in wit.items():
        wc[k] = wc.get(k, 0) + v


def on_exc(w):
    return ("C17.run_aborted", "the run aborted | %s: %s" % (type(w.exc).__name__, str(w.exc)[:80]))


def run(tier, seed):
    res = common.Result("C17", tier, seed)
    sc = scenarios(tier)
    deep = {k: v for k, v in sc.items() if k in ("index:1-2", "index:1-2-5+X", "index_first:1-2-5", "index_first:2-5+X", "noexec_first:1-2")}
    b = 1 if tier == "quick" else 2
    run_r("C17", tier, seed, sc, [acc_C17], b, on_exc, [], RULE, res=res, label="share_grid")
    run_r("C17", tier, seed, deep, [acc_C17], b + 1, on_exc, WIT, RULE, res=res, label="share_grid_deeper")
    invalid_component_sets(res)
    direct_search(res, 5 if tier == "quick" else 6)
    res.require_witness(["component_added_after_evaluation", "shares_revised_after_evaluation", "direct_index_evaluations", "components_one_step_ahead_of_the_index", "index_stepped_before_components_refused"])
    return res


def replay(payload):
    if payload.get("grid") == "direct_index_api":
        w = DWorld()
        try:
            for op in payload["history"]:
                print("  op", op)
                w.apply(tuple(op))
        except common.Violation as v:
            print("  ==> VIOLATION %s: %s" % (v.monitor, v.msg))
            print("VIOLATION property=C17 replay=(this file)")
            return 1
        print("replay: no violation on this tree")
        return 0
    if str(payload.get("scenario", "")).startswith("invalid:"):
        res = common.Result("C17", "quick", 0)
        invalid_component_sets(res)
        print(res.coverage["invalid_component_sets"])
        return 1 if res.violations else 0
    return replay_r(scenarios("thorough"), [acc_C17], on_exc, payload)
