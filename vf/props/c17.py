"""C17: index market values are share-weighted averages of their components -- Engine R (+F)."""
from .. import common
from ._r import run_r, replay_r
from ..acceptors_r2 import acc_C17, make_index_observers
from ..explore_r import Scenario, S, mkcfg, bl, sl, bm, sm, run_once, IndexMarket

WIT = ["index_clock_advances", "unequal_shares", "three_components", "past_time_with_unequal_component_prices",
       "index_observations"]
RULE = ("share vectors from {1,2,5}^n (n = 2, 3) x index market listed directly after its components or followed by a further "
        "plain market, or moved to the front of the market list x all executions within the deviation bound of trading programs "
        "that move component prices, with drift and a fundamental shock on a component; at every observation point every "
        "past and current index value is recomputed from the components, and at every clock advance the recorded index "
        "fundamental is compared with the weighted average for the new time; distinct = outcome digests")


def menu(nc):
    out = [[]]
    for mi in range(nc):
        out += [[bl(mi, 104)], [sl(mi, 104)], [bl(mi, 96)], [sl(mi, 96)]]
    out += [[bm(0)], [sm(1)]]
    return out


def mk(name, shares, extra_market=False, index_first=False, shock=True):
    nc = len(shares)
    markets = [dict(name="M%d" % i, shares=sh, drift=(2.0 ** -7 if i == 1 else 0.0)) for i, sh in enumerate(shares)]
    markets.append(dict(name="IDX", cls="ProbeIndexMarket", components=["M%d" % i for i in range(nc)]))
    if extra_market:
        markets.append(dict(name="X", shares=3))
    mn = menu(nc)
    # default programs: trade M0 at 104 in step 1, M1 at 96 in step 2, (M2 at 104 in step 3)
    pa = [0, 1, 7, 0, 1]
    pb = [0, 2, 8, 0, 2]
    if nc == 3:
        pa = [0, 1, 7, 9, 1]
        pb = [0, 2, 8, 10, 2]
    names = [m["name"] for m in markets]
    ags = [dict(name="A0", menu=mn, program=pa, markets=names), dict(name="A1", menu=mn, program=pb, markets=names)]
    ev = {}
    s0 = dict(maxNormalOrders=2)
    if shock:
        ev["SH"] = {"class": "FundamentalPriceShock", "target": "M0", "triggerTime": 2, "priceChangeRate": 0.5, "shockTimeLength": 1}
        s0["events"] = ["SH"]
    sessions = [S(0, 3, True, True, **s0), S(1, 2, True, True, maxNormalOrders=2)]
    obs, after_clock = make_index_observers()

    def post_setup(w):
        if index_first:
            ms = w.runner.simulator.markets
            idx = [m for m in ms if isinstance(m, IndexMarket)]
            for m in idx:
                ms.remove(m)
                ms.insert(0, m)

    return Scenario(name, mkcfg(sessions, markets=markets, agents=ags, events=ev), observer=obs, after_clock=after_clock,
                    post_setup=post_setup)


def scenarios(tier):
    sc = {}
    for shares in ((1, 2), (2, 5), (5, 1), (2, 2), (1, 2, 5), (5, 5, 1)):
        for extra in (False, True):
            n = "index:%s%s" % ("-".join(map(str, shares)), "+X" if extra else "")
            sc[n] = mk(n, shares, extra_market=extra)
    sc["index_first:1-2-5"] = mk("index_first:1-2-5", (1, 2, 5), index_first=True)
    sc["index_first:2-5+X"] = mk("index_first:2-5+X", (2, 5), extra_market=True, index_first=True)
    return sc


def invalid_component_sets(res):
    """invalid component sets must be rejected at set-up"""
    cases = {
        "repeated_component": [dict(name="M0", shares=1), dict(name="M1", shares=2), dict(name="IDX", cls="ProbeIndexMarket", components=["M0", "M0"])],
        "component_without_shares": [dict(name="M0", shares=1), dict(name="M1"), dict(name="IDX", cls="ProbeIndexMarket", components=["M0", "M1"])],
        "unknown_component": [dict(name="M0", shares=1), dict(name="IDX", cls="ProbeIndexMarket", components=["M0", "NOPE"])],
        "index_before_components": [dict(name="IDX", cls="ProbeIndexMarket", components=["M0", "M1"]), dict(name="M0", shares=1), dict(name="M1", shares=2)],
    }
    out = {}
    for name, markets in cases.items():
        ags = [dict(name="A0", menu=[[]], markets=["M0"])]
        scn = Scenario(name, mkcfg([S(0, 1, True, True)], markets=markets, agents=ags))
        w = run_once(scn, [])
        out[name] = type(w.exc).__name__ if w.exc is not None else "accepted"
        if w.exc is None and name != "index_before_components":
            res.add_violation("C17.invalid_components", "an invalid component set was accepted at set-up", "C17.invalid:" + name,
                              dict(engine="R", scenario="invalid:" + name, choices=[]))
    res.coverage["invalid_component_sets"] = out


def on_exc(w):
    return ("C17.run_aborted", "the run aborted | %s: %s" % (type(w.exc).__name__, str(w.exc)[:80]))


def run(tier, seed):
    res = common.Result("C17", tier, seed)
    sc = scenarios(tier)
    deep = {k: v for k, v in sc.items() if k in ("index:1-2", "index:1-2-5+X", "index_first:1-2-5", "index_first:2-5+X")}
    b = 1 if tier == "quick" else 2
    run_r("C17", tier, seed, sc, [acc_C17], b, on_exc, [], RULE, res=res, label="share_grid")
    run_r("C17", tier, seed, deep, [acc_C17], b + 1, on_exc, WIT, RULE, res=res, label="share_grid_deeper")
    invalid_component_sets(res)
    return res


def replay(payload):
    if str(payload.get("scenario", "")).startswith("invalid:"):
        res = common.Result("C17", "quick", 0)
        invalid_component_sets(res)
        print(res.coverage["invalid_component_sets"])
        return 1 if res.violations else 0
    return replay_r(scenarios("thorough"), [acc_C17], on_exc, payload)
