"""C11: agent callbacks -- each party told exactly once of its orders, cancels, fills -- Engine R."""
from ._r import run_r, replay_r
from ..acceptors_r import acc_C11
from ..scenarios_r import base_family

WIT = ["submitted_callbacks", "canceled_callbacks", "executed_callbacks", "hft_submitted_callback", "hft_executed_callback", "self_trade", "multi_fill_round", "cancel_of_dead_order"]
RULE = ("deviation-bounded enumeration of all executions of the real SequentialRunner around each base scenario (every "
        "permutation handed out by sample(), every rate draw, every menu choice of every scripted agent); per agent the multiset of submitted/canceled/executed notifications is compared with the ground-truth events it is a party to, and holdings seen inside executed_order must already include the whole round; "
        "distinct = distinct outcome digests")


def scenarios(tier):
    return base_family()


def on_exc(w):
    return ("C11.run_aborted", "the run aborted with %s: %s" % (type(w.exc).__name__, str(w.exc)[:80]))


def run(tier, seed):
    from ..families import cross_family
    res = run_r("C11", tier, seed, scenarios(tier), [acc_C11], 2 if tier == "quick" else 3, on_exc, WIT, RULE)
    run_r("C11", tier, seed, cross_family(tier), [acc_C11], 1, on_exc, [], RULE, res=res, label="cross_family", split=0)
    return res


def replay(payload):
    from ..families import cross_family
    sc = scenarios("thorough")
    sc.update(cross_family("thorough"))
    return replay_r(sc, [acc_C11], on_exc, payload)
