"""C13: event hooks fire exactly at their registered occasions, times and markets -- Engine R + F."""
import itertools

from .. import common
from ._r import run_r, replay_r
from ..acceptors_r import acc_C13
from ..explore_r import (Scenario, S, mkcfg, bl, sl, HOOK_KINDS, EventHook, ProbeEvent, Market, IndexMarket,
                         ProbeMarket, ProbeIndexMarket)
from ..scenarios_r import CL

WIT = ["order_occurrences", "cancel_occurrences", "cancel_later_than_order", "cancel_of_filled_order", "fill_occurrences", "hook_invocations", "before_session_hook_at_mode_change",
       "spec_time_none", "spec_time_empty", "spec_time_duplicate", "altered_order_accepted"]
RULE = ("one probe event carrying every single hook specification (9 hook kinds x time lists None/[]/[t]/[t,t']/[t,t] x market "
        "filters) and every pair of specifications, run through the real runner in a two-session, three-market (incl. index "
        "market) trading scenario (also without any logger attached) with deviations of schedules and agent programs; invocations recorded by the probe are "
        "compared as a multiset with the occurrences recorded by the probe markets; distinct = outcome digests")

MENU13 = [[], [bl(0, 101)], [sl(0, 99)], [bl(1, 101)], [sl(1, 99)], [CL], [bl(0, 100), sl(1, 100)], [["C", "dead"]]]
TIMES = [None, [], [0], [1], [2], [3], [1, 3], [2, 2]]
FILTERS = [None, "cls:Market", "cls:IndexMarket", "inst:0", "inst:0+cls:Market", "inst:0+cls:IndexMarket", "inst:2+cls:IndexMarket"]


def all_specs():
    out = []
    for (ty, b) in HOOK_KINDS:
        for tm in TIMES:
            for flt in (FILTERS if ty == "market" else [None]):
                out.append([ty, b, tm, flt])
    return out


def scn_for(name, specs, alter=None, two_events=False, noplacement=False, hft=False):
    markets = [dict(name="M0", shares=1), dict(name="M1", shares=2),
               dict(name="IDX", cls="ProbeIndexMarket", components=["M0", "M1"])]
    ags = [dict(name="A0", menu=MENU13, program=[1, 3, 1, 5], markets=["M0", "M1"]),
           dict(name="A1", menu=MENU13, program=[2, 4, 2, 7], markets=["M0", "M1"])]
    hk = {}
    if hft:
        # a high-frequency agent whose orders, cancels and fills go through the runner's second dispatch path
        ags.append(dict(name="H0", cls="ScriptedHFAgent", menu=MENU13, program=[2, 5, 3, 1], markets=["M0", "M1"]))
        hk = dict(maxHighFrequencyOrders=1, highFrequencySubmitRate=1.0)
    ev = {"E": {"class": "ProbeEvent", "hooks": specs}}
    if alter:
        ev["E"]["alter"] = alter
    evnames = ["E"]
    if two_events:
        ev = {"E": {"class": "ProbeEvent", "hooks": specs[:1]}, "E2": {"class": "ProbeEvent", "hooks": specs[1:]}}
        evnames = ["E", "E2"]
    # the event is listed under the FIRST session; its hooks are registered for the whole run
    sessions = [S(0, 2, True, False, maxNormalOrders=2, events=evnames, **hk), S(1, 2, True, True, maxNormalOrders=2, **hk)]
    if noplacement == "zero_steps":
        # a configured session of zero steps between two trading sessions: it still begins and ends
        sessions = [S(0, 2, True, True, maxNormalOrders=2, events=evnames), S(1, 0, True, True), S(2, 1, True, True, maxNormalOrders=2)]
    elif noplacement:
        # a session without order placement (steps in which nobody is asked) between two trading sessions
        sessions = [S(0, 1, True, True, maxNormalOrders=2, events=evnames), S(1, 2, False, False), S(2, 1, True, True, maxNormalOrders=2)]
    return Scenario(name, mkcfg(sessions, markets=markets, agents=ags, events=ev))


def halt_scenarios():
    """a built-in rule that stops the market from inside an after-execution hook, listed BEFORE probe events
    with after-execution hooks, and one matching round with two fills"""
    sc = {}
    menu = [[], [sl(0, 125), sl(0, 125)], [bl(0, 125, 2)], [bl(0, 101)], [sl(0, 99)], [CL]]
    for tm in (None, [2], [2, 3]):
        for second in (["execution", False, None, None], ["order", False, None, None]):
            name = "halt_midbatch:t%s-%s" % ("None" if tm is None else "_".join(map(str, tm)), second[0])
            ags = [dict(name="A0", menu=menu, program=[0, 2, 3, 3], markets=["M0"]), dict(name="A1", menu=menu, program=[1, 0, 4, 4], markets=["M0"])]
            ev = {"H": {"class": "TradingHaltRule", "targetMarkets": ["M0"], "triggerChangeRate": 0.125, "haltingTimeLength": 1},
                  "E": {"class": "ProbeEvent", "hooks": [["execution", False, tm, None], second]}}
            sessions = [S(0, 2, True, False, maxNormalOrders=2, events=["H", "E"]), S(1, 2, True, True, maxNormalOrders=2)]
            sc[name] = Scenario(name, mkcfg(sessions, markets=[dict(name="M0")], agents=ags, events=ev))
    return sc


def spec_name(sp):
    return "%s-%s-t%s-%s" % (sp[0], "before" if sp[1] else "after", "None" if sp[2] is None else "_".join(map(str, sp[2])) or "empty", sp[3] or "nofilter")


def single_scenarios():
    sc = {}
    for sp in all_specs():
        n = "single:" + spec_name(sp)
        sc[n] = scn_for(n, [sp])
    # every hook kind (un-timed, unfiltered) in a run that has no logger attached
    for (ty, b) in HOOK_KINDS:
        n = "single:%s:no_logger" % spec_name([ty, b, None, None])
        sc[n] = scn_for(n, [[ty, b, None, None]])
        sc[n].meta = dict(sc[n].meta, logger="none")
    for (ty, b) in HOOK_KINDS:
        for tm in (None, [1], [2]):
            n = "single:%s:noplacement_session" % spec_name([ty, b, tm, None])
            sc[n] = scn_for(n, [[ty, b, tm, None]], noplacement=True)
    for (ty, b) in HOOK_KINDS:
        if ty in ("order", "cancel", "execution"):
            for tm in (None, [2], [3]):
                n = "single:%s:hft_agent" % spec_name([ty, b, tm, None])
                sc[n] = scn_for(n, [[ty, b, tm, None]], hft=True)
    # hooks registered through simulator._add_event while a session is running (from the first after-execution call of the
    # same event, which happens in step 2), for the next step of that session
    for late in ([["market", True, [3], None], ["market", False, [3], None]], [["order", True, [3], None], ["cancel", False, [3], None]],
                 [["execution", False, [3], None], ["session", False, [3], None]]):
        n = "late_registration:%s" % "+".join("%s-%s" % (x[0], "before" if x[1] else "after") for x in late)
        sc[n] = scn_for(n, [["execution", False, None, None]])
        sc[n].cfg["E"].update(late_hooks=late, late_on="execution")
    for (ty, b) in HOOK_KINDS:
        if ty in ("session", "market"):
            for tm in (None, [2]):
                n = "single:%s:zero_step_session" % spec_name([ty, b, tm, None])
                sc[n] = scn_for(n, [[ty, b, tm, None]], noplacement="zero_steps")
    # one event entry listed under both sessions: two instances, each with all its hooks
    for specs in ([["order", False, None, None], ["market", True, [1, 3], None]], [["session", True, None, None], ["execution", False, None, None], ["cancel", True, [2], None]]):
        n = "listed_under_both_sessions:%s" % "+".join(spec_name(x) for x in specs)
        sc[n] = scn_for(n, specs)
        sc[n].cfg["simulation"]["sessions"][1]["events"] = ["E"]
    sc["alter:order-before"] = scn_for("alter:order-before", [["order", True, None, None]], alter=["price", 97.5])
    return sc


def pair_scenarios():
    sc = {}
    specs = all_specs()
    for i, a in enumerate(specs):
        for b in specs[i:]:
            n = "pair:%s|%s" % (spec_name(a), spec_name(b))
            sc[n] = scn_for(n, [a, b])
    # the same two specifications on two different events
    for a, b in [(specs[0], specs[1]), (specs[8], specs[8])]:
        n = "two_events:%s|%s" % (spec_name(a), spec_name(b))
        sc[n] = scn_for(n, [a, b], two_events=True)
    return sc


def scenarios(tier):
    sc = single_scenarios()
    sc.update(pair_scenarios())
    sc.update(halt_scenarios())
    return sc


def acc_C13_multifill(w):
    acc_C13(w)
    for e in w.ev:
        if e[0] == "round" and len(e[2]) >= 2:
            w.wit.inc("fills_in_multi_fill_round_hooked", len(e[2]))


def on_exc(w):
    return ("C13.run_aborted", "the run aborted with %s: %s" % (type(w.exc).__name__, str(w.exc)[:80]))


def ctor_grid(res):
    """Engine F: the EventHook constructor grid and double registration."""
    import random
    from pams.simulator import Simulator
    from pams.session import Session
    sim = Simulator(prng=random.Random(0))
    sess = Session(0, random.Random(0), 0, sim, "s")
    ev = ProbeEvent(0, random.Random(0), sess, sim, "E")
    mk = Market(0, random.Random(0), sim, "m")
    n = 0
    bad = good = 0
    for ty in ["order", "cancel", "execution", "session", "market", "agent", "", None]:
        for b in (True, False):
            for cls in (None, Market, IndexMarket, int, "Market"):
                for inst in (None, mk, 5, "m"):
                    n += 1
                    valid = ty in ("order", "cancel", "execution", "session", "market")
                    if ty == "execution" and b:
                        valid = False
                    if (cls is not None or inst is not None) and ty != "market":
                        valid = False
                    if cls is not None and not (isinstance(cls, type) and issubclass(cls, Market)):
                        valid = False
                    if inst is not None and not isinstance(inst, Market):
                        valid = False
                    try:
                        EventHook(ev, ty, b, time=None, specific_class=cls, specific_instance=inst)
                        ok = True
                    except Exception:  # noqa
                        ok = False
                    if ok != valid:
                        res.add_violation("C13.ctor", "EventHook constructor %s an %s specification" % (
                            "accepted" if ok else "rejected", "invalid" if not valid else "valid"),
                            "C13.ctor:%s" % ("accepted_invalid" if ok else "rejected_valid"),
                            dict(engine="F", case=[str(ty), b, str(cls), str(inst)]))
                    bad += (not valid)
                    good += valid
    # double registration of one hook object
    h = EventHook(ev, "order", True)
    sim._add_event(h)
    try:
        sim._add_event(h)
        res.add_violation("C13.double", "the same hook object could be registered twice", "C13.double:accepted", dict(engine="F", case="double"))
    except ValueError:
        pass
    res.coverage["ctor_grid"] = dict(cases=n, valid=good, invalid=bad, double_registration_rejected=True)
    return n


def run(tier, seed):
    res = common.Result("C13", tier, seed)
    run_r("C13", tier, seed, single_scenarios(), [acc_C13], 1 if tier == "quick" else 2, on_exc, [], RULE, res=res, label="single_specs")
    run_r("C13", tier, seed, pair_scenarios(), [acc_C13], 0 if tier == "quick" else 1, on_exc, WIT, RULE, res=res, label="spec_pairs", split=0)
    run_r("C13", tier, seed, halt_scenarios(), [acc_C13_multifill], 2 if tier == "quick" else 3, on_exc, ["fills_in_multi_fill_round_hooked"], RULE, res=res, label="halt_inside_execution_hook")
    ctor_grid(res)
    # double registration through a configuration
    sc = {"double": scn_for("double", [["order", True, None, None]])}
    sc["double"].cfg["E"]["double_register"] = True
    from ..explore_r import run_once
    w = run_once(sc["double"], [])
    if w.exc is None or not isinstance(w.exc, ValueError):
        res.add_violation("C13.double", "registering the same hook object twice through an event was not rejected", "C13.double:cfg", dict(engine="R", scenario="double", choices=[]))
    return res


def replay(payload):
    if payload.get("engine") == "F":
        print("constructor grid case:", payload.get("case"))
        return 1
    return replay_r(scenarios("thorough"), [acc_C13], on_exc, payload)
