"""C01: trades honour both limits; one price per round, set by the resting side (Engine M)."""
from ._m import run_generic, replay_generic
from ..monitors_m import C01Mon

WIT = ["round_with_fills", "multi_fill_round", "round_with_3_fills", "market_vs_limit_fill", "tie_decided_by_id", "round_over_2_price_levels", "partially_filled_order_rematched", "continuous_round", "batch_round"]
RULE = ("every operation history over the alphabet (clock step, limit/market submissions with and without time-to-live, "
        "cancels of live and dead orders, matching round, running switch) up to the stated depth from the empty book and "
        "from each seed book, in continuous and in batch mode, executed on a real Market; the statement of C01 is evaluated as a predicate on every matching round using the pre-round book and the returned fills; "
        "distinct = canonical market states; plus every execution within deviation bound 1 of the whole-run scenario families of the "
        "other checks (rules and shocks that rewrite orders, high-frequency agents, halts, index markets), judged against the limits as accepted")


def factory():
    return [C01Mon()]


def run(tier, seed):
    res = run_generic("C01", tier, seed, factory, WIT, RULE, layouts=True)
    # whole runs: every scenario family of the run-loop and event properties (orders rewritten by rules and shocks,
    # high-frequency agents, halts, index markets), the statement evaluated on every matching round of every execution
    from ._r import run_whole_runs
    from ..acceptors_r import acc_C01
    return run_whole_runs(res, "C01", tier, seed, [acc_C01], RULE)


def replay(payload):
    if payload.get("engine") == "R":
        from ._r import replay_whole_runs
        from ..acceptors_r import acc_C01
        return replay_whole_runs(payload, [acc_C01])
    return replay_generic(payload, factory)
