"""C02: fills follow price-time priority; order comparison is a strict total order (Engine M)."""
from ._m import run_generic, replay_generic
from ..monitors_m import C02Mon

WIT = ["priority_pair_checked", "id_tiebreak_in_round", "time_priority_in_round", "comparator_pairs", "comparator_id_tiebreak", "drain_probe_3plus"]
RULE = ("every operation history over the alphabet (clock step, limit/market submissions with and without time-to-live, "
        "cancels of live and dead orders, matching round, running switch) up to the stated depth from the empty book and "
        "from each seed book, in continuous and in batch mode, executed on a real Market; per round no lower-priority order is filled while a higher-priority one keeps volume (priority key computed by the monitor), in every state the best order of each side is the key minimum, the comparison operators agree with the key on every pair of resting orders, and popping a copy of the queue yields priority order; "
        "plus the deep one-sided book grids (every arrival order of 5-7 levels x cancels x sweeps; every heap layout of 9-10 (thorough: 11) levels x a sweep of k levels followed by one round per remaining level); distinct = canonical market states; plus every execution within deviation bound 1 of all whole-run scenario families, the priority clause evaluated on every matching round")


def factory():
    return [C02Mon()]


def _mk(side, spec):
    from pams.order import LIMIT_ORDER, MARKET_ORDER, Order
    kind, price, placed, oid = spec
    # agent ids run against order ids: the ranking must not look at the submitting agent
    return Order(7 - oid, 0, side, MARKET_ORDER if kind == 0 else LIMIT_ORDER, 1, placed_at=placed, price=price, order_id=oid)


PRICES = (99.0, 100.0, 101.0)
# adjacent ticks of a fine grid at a high price level (tick 1e-5 at 30000: 3e-10 relative apart), and adjacent floats
CLOSE_PRICES = (30000.0, 30000.00001, 30000.00002, 100.0, 100.00000000000001)
_DOMAIN_PRICES = PRICES


def domain():
    out = []
    for oid in range(4):
        for placed in range(3):
            out.append((0, None, placed, oid))
            for price in _DOMAIN_PRICES:
                out.append((1, price, placed, oid))
    return out


def consistent(a, b):
    """ids are assigned in acceptance order: distinct ids, and an earlier time never has a larger id"""
    if a[3] == b[3]:
        return False
    return (a[2] <= b[2]) if a[3] < b[3] else (a[2] >= b[2])


def comparator_fn(case, wit):
    from ..common import Violation
    try:
        return _comparator_fn(case, wit)
    except Violation:
        raise
    except Exception as e:  # noqa  (every comparison of two accepted same-side orders must be defined)
        raise Violation("C02.comparator_raises", "comparing two accepted orders of one side raised", "case %r: %r" % (case, e))


def _comparator_fn(case, wit):
    """all pairs and triples (first element fixed by the case) of accepted same-side orders"""
    from ..common import Violation
    from ..explore_m import K
    global _DOMAIN_PRICES
    which, side, i = case
    _DOMAIN_PRICES = PRICES if which == "grid" else CLOSE_PRICES
    dom = domain()
    if which == "close":
        wit.inc("domain_close_prices")
    a_s = dom[i]
    a = _mk(side, a_s)
    try:
        refl = (not (a < a) and not (a > a) and a == a and a <= a and a >= a and not (a != a))
    except Exception as e:  # noqa
        raise Violation("C02.comparator_raises", "comparing two accepted orders of one side raised", "side %s: %r with itself: %r" % ("buy" if side else "sell", a_s, e))
    if not refl:
        raise Violation("C02.comparator", "comparison of an order with itself is not reflexive-equal", "%r" % (a_s,))
    n = 0
    for j in range(len(dom)):
        if j == i or not consistent(a_s, dom[j]):
            continue
        b = _mk(side, dom[j])
        ka, kb = K(a), K(b)
        try:
            (a < b, b < a, a > b, a == b, a <= b, a >= b)
        except Exception as e:  # noqa
            raise Violation("C02.comparator_raises", "comparing two accepted orders of one side raised", "side %s: %r vs %r: %r" % ("buy" if side else "sell", a_s, dom[j], e))
        ok = ((a < b) == (ka < kb) and (a > b) == (kb < ka) and (a < b) != (b < a) and not (a == b) and (a != b)
              and (a <= b) == (ka < kb) and (a >= b) == (kb < ka))
        if not ok:
            raise Violation("C02.comparator", "the comparison operators on accepted orders of one side disagree with price-time priority",
                            "side %s: %r vs %r" % ("buy" if side else "sell", a_s, dom[j]))
        n += 1
        wit.inc("domain_pairs")
        for k in range(j + 1, len(dom)):
            if k == i or not consistent(a_s, dom[k]) or not consistent(dom[j], dom[k]):
                continue
            c = _mk(side, dom[k])
            if (a < b and b < c and not a < c) or (c < b and b < a and not c < a) or (b < a and a < c and not b < c):
                raise Violation("C02.transitivity", "order comparison is not transitive", "%r %r %r" % (a_s, dom[j], dom[k]))
            wit.inc("domain_triples")
    return (which, side, a_s[0], a_s[1])


def run(tier, seed):
    res = run_generic("C02", tier, seed, factory, WIT, RULE, layouts=True)
    from ..enum_f import run_grid
    ev0, dn0 = res.coverage["evaluations"], res.coverage["distinct_nontrivial"]
    global _DOMAIN_PRICES
    cases = []
    for which, prices in (("grid", PRICES), ("close", CLOSE_PRICES)):
        _DOMAIN_PRICES = prices
        cases += [(which, s, i) for s in (True, False) for i in range(len(domain()))]
    run_grid(res, "comparator_domain", cases, comparator_fn, seed)
    res.coverage["evaluations"] = ev0 + res.coverage["witness_classes"].get("domain_pairs", 0) + res.coverage["witness_classes"].get("domain_triples", 0)
    res.coverage["distinct_nontrivial"] = dn0
    res.require_witness(["domain_pairs", "domain_triples", "domain_close_prices"])
    # whole runs: within every matching round of every execution of all Engine-R scenario families no order is filled
    # while a higher-priority order of its side (key from the orders' fields at that moment) keeps volume
    from ._r import run_whole_runs
    from ..acceptors_r import acc_C02
    ev1 = res.coverage["evaluations"]
    run_whole_runs(res, "C02", tier, seed, [acc_C02], RULE)
    return res


def replay(payload):
    if payload.get("engine") == "R":
        from ._r import replay_whole_runs
        from ..acceptors_r import acc_C02
        return replay_whole_runs(payload, [acc_C02])
    if payload.get("engine") == "F" and payload.get("grid") not in ("deep_one_sided_books", "heap_layouts", "books_with_ties"):
        from ..common import Violation, Counter
        try:
            comparator_fn(tuple(payload["case"]), Counter())
        except Violation as v:
            print("  ==> VIOLATION %s: %s" % (v.monitor, v.msg))
            print("VIOLATION property=C02 replay=(this file)")
            return 1
        print("replay: no violation on this tree")
        return 0
    return replay_generic(payload, factory)
