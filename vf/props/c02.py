"""C02: fills follow price-time priority; order comparison is a strict total order (Engine M)."""
from ._m import run_generic, replay_generic
from ..monitors_m import C02Mon

WIT = ["priority_pair_checked", "id_tiebreak_in_round", "time_priority_in_round", "comparator_pairs", "comparator_id_tiebreak", "drain_probe_3plus"]
RULE = ("every operation history over the alphabet (clock step, limit/market submissions with and without time-to-live, "
        "cancels of live and dead orders, matching round, running switch) up to the stated depth from the empty book and "
        "from each seed book, in continuous and in batch mode, executed on a real Market; per round no lower-priority order is filled while a higher-priority one keeps volume (priority key computed by the monitor), in every state the best order of each side is the key minimum, the comparison operators agree with the key on every pair of resting orders, and popping a copy of the queue yields priority order; "
        "distinct = canonical market states")


def factory():
    return [C02Mon()]


def run(tier, seed):
    return run_generic("C02", tier, seed, factory, WIT, RULE)


def replay(payload):
    return replay_generic(payload, factory)
