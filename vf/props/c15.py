"""C15: price limit rule -- accepted prices stay in the band; other markets untouched -- Engine R (+F)."""
from .. import common
from ._r import run_r, replay_r
from ..acceptors_r2 import acc_C15
from ..explore_r import Scenario, S, mkcfg, bl, sl, bm, sm

WIT = ["clipped_from_above", "clipped_from_below", "on_band_edge", "inside_band", "clipped_then_rounded",
       "non_target_order_accepted", "market_order_on_target", "fills_checked_against_band", "two_rules_in_one_run"]
RULE = ("grid of rule placements (target sets out of three markets, rate, tick size, session, enabled) x all executions within "
        "the deviation bound; agent menus hold limit prices far outside, one tick outside, exactly on, one tick inside the "
        "band edges and off-grid, plus market orders, on target and non-target markets; every accepted order is compared with "
        "clip-then-round of what the agent returned; distinct = outcome digests")


def menus(r, tick):
    lo, hi = 100 * (1 - r), 100 * (1 + r)
    out = [[]]
    for mi in (0, 1):
        out += [[bl(mi, 200)], [sl(mi, 10)], [bl(mi, hi + tick)], [sl(mi, lo - tick)], [bl(mi, hi)], [sl(mi, lo)],
                [bl(mi, hi - tick)], [sl(mi, lo + tick)], [sl(mi, hi + tick / 2 + tick)], [bl(mi, lo - tick / 2)],
                [bl(mi, 100.25)], [bm(mi)], [sm(mi)]]
    out += [[bl(0, 200), sl(1, 10)], [sl(2, 10)], [bl(2, 200)]]
    # limit prices of exactly zero (accepted by pams with a warning) and just above it
    out += [[sl(0, 0.0)], [bl(1, 0.0)], [sl(1, tick / 4)]]
    return out


def scenarios(tier):
    sc = {}
    for targets in (["M0"], ["M0", "M1"], ["M1"], ["M0", "M1", "M2"]):
        for r in (0.25, 0.125):
            for tick in (1.0, 0.5):
                for shape in ("noexec_first", "exec_only", "rule_in_session1", "rule_after_a_trading_session"):
                    for enabled in (True, False):
                        if not enabled and (r != 0.25 or tick != 1.0 or shape != "exec_only"):
                            continue
                        name = "limit:%s-r%s-tick%s-%s-%s" % ("+".join(targets), r, tick, shape, "on" if enabled else "off")
                        menu = menus(r, tick)
                        n = len(menu)
                        markets = [dict(name="M%d" % i, tick=tick) for i in range(3)]
                        # default programs: sell far below / buy far above the band on M0 and M1 alternately (clipped, then trade)
                        ags = [dict(name="A0", menu=menu, program=[1, 14, 5, 1], markets=["M0", "M1", "M2"]),
                               dict(name="A1", menu=menu, program=[2, 15, 6, 2], markets=["M0", "M1", "M2"])]
                        ev = {"PL": {"class": "PriceLimitRule", "targetMarkets": targets, "triggerChangeRate": r, "enabled": enabled}}
                        if shape == "noexec_first":
                            sessions = [S(0, 2, True, False, maxNormalOrders=2, events=["PL"]), S(1, 2, True, True, maxNormalOrders=2)]
                        elif shape == "exec_only":
                            sessions = [S(0, 3, True, True, maxNormalOrders=2, events=["PL"])]
                        elif shape == "rule_after_a_trading_session":
                            # the rule comes into force in the second session, after a session WITH execution and without
                            # the rule has moved the prices far away from their time-0 values (the band stays where it was)
                            if len(targets) > 2 or (r, tick) == (0.125, 0.5):
                                continue
                            sessions = [S(0, 2, True, True, maxNormalOrders=2), S(1, 3, True, True, maxNormalOrders=2, events=["PL"])]
                        else:
                            sessions = [S(0, 1, True, False, maxNormalOrders=2), S(1, 3, True, True, maxNormalOrders=2, events=["PL"])]
                        sc[name] = Scenario(name, mkcfg(sessions, markets=markets, agents=ags, events=ev),
                                            meta=dict(limit_rule=dict(targets=targets, r=r, enabled=enabled)))
                        if enabled and r == 0.25 and tick == 1.0 and len(targets) <= 2 and shape in ("noexec_first", "exec_only"):
                            # the same run with a high-frequency agent (the runner's second dispatch path) sending out-of-band orders
                            n3 = name + "-hft_agent"
                            ags3 = ags + [dict(name="H0", cls="ScriptedHFAgent", menu=menu, program=[3, 4, 1, 2], markets=["M0", "M1", "M2"])]
                            s3 = [dict(x, maxHighFrequencyOrders=1, highFrequencySubmitRate=1.0) for x in sessions]
                            sc[n3] = Scenario(n3, mkcfg(s3, markets=markets, agents=ags3, events=ev),
                                              meta=dict(limit_rule=dict(targets=targets, r=r, enabled=enabled)))
                        if enabled and r == 0.25 and tick == 1.0 and len(targets) == 1 and shape in ("noexec_first", "exec_only"):
                            # the same run with other events (a halt rule too wide to act, a fundamental shock on M2) listed
                            # before / after the price limit rule
                            import copy
                            for first in (True, False):
                                # ... and a user event with before-order hooks registered for single steps and for all steps
                                ev2 = dict(ev, HR={"class": "TradingHaltRule", "targetMarkets": ["M0", "M1"], "triggerChangeRate": 0.9375, "haltingTimeLength": 1},
                                           FS={"class": "FundamentalPriceShock", "target": "M2", "triggerTime": 1, "priceChangeRate": 0.5, "shockTimeLength": 1},
                                           PE={"class": "ProbeEvent", "hooks": [["order", True, [0], None], ["order", True, [1, 2], None], ["order", True, None, None],
                                                                                  ["order", False, [1], None]]})
                                s2 = copy.deepcopy(sessions)
                                s2[0]["events"] = ["HR", "FS", "PE", "PL"] if first else ["PL", "HR", "FS", "PE"]
                                n2 = "%s-other_events_%s" % (name, "first" if first else "last")
                                sc[n2] = Scenario(n2, mkcfg(s2, markets=markets, agents=ags, events=ev2),
                                                  meta=dict(limit_rule=dict(targets=targets, r=r, enabled=enabled)))
    # market names that are prefixes of each other: only the named one is a target
    for targets in (["M"], ["M0"], ["M", "M00"]):
        name = "prefix_names:%s" % "+".join(targets)
        menu = menus(0.25, 1.0)
        names = ["M", "M0", "M00"]
        markets = [dict(name=n_, tick=1.0) for n_ in names]
        ags = [dict(name="A0", menu=menu, program=[1, 14, 5, 27], markets=names),
               dict(name="A1", menu=menu, program=[2, 15, 6, 28], markets=names)]
        ev = {"PL": {"class": "PriceLimitRule", "targetMarkets": targets, "triggerChangeRate": 0.25}}
        sessions = [S(0, 2, True, False, maxNormalOrders=2, events=["PL"]), S(1, 2, True, True, maxNormalOrders=2)]
        sc[name] = Scenario(name, mkcfg(sessions, markets=markets, agents=ags, events=ev),
                            meta=dict(limit_rule=dict(targets=targets, r=0.25, enabled=True)))
    # the target is an index market whose own time-0 price (110) is not the value of its basket (100)
    for targets in (["IDX"], ["IDX", "M0"]):
        name = "index_market_target:%s" % "+".join(targets)
        menu = menus(0.25, 1.0)
        markets = [dict(name="M0", tick=1.0, shares=1), dict(name="M1", tick=1.0, shares=2),
                   dict(name="IDX", tick=1.0, cls="ProbeIndexMarket", components=["M0", "M1"], price=110.0)]
        # menu items address markets by position: position 2 is the index market
        ags = [dict(name="A0", menu=menu, program=[28, 1, 27, 5], markets=["M0", "M1", "IDX"]),
               dict(name="A1", menu=menu, program=[27, 2, 28, 6], markets=["M0", "M1", "IDX"])]
        ev = {"PL": {"class": "PriceLimitRule", "targetMarkets": targets, "triggerChangeRate": 0.25}}
        sessions = [S(0, 2, True, False, maxNormalOrders=2, events=["PL"]), S(1, 2, True, True, maxNormalOrders=2)]
        sc[name] = Scenario(name, mkcfg(sessions, markets=markets, agents=ags, events=ev),
                            meta=dict(limit_rule=dict(targets=targets, r=0.25, enabled=True)))
    # the rule's entry inherits over two extends levels; rate and targets differ between parent and grandparent
    for leaf_keys in ((), ("triggerChangeRate",)):
        name = "rule_inherits_over_two_levels:%s" % ("leaf_sets_rate" if leaf_keys else "leaf_sets_nothing")
        menu = menus(0.25, 1.0)
        markets = [dict(name="M%d" % i, tick=1.0) for i in range(3)]
        ags = [dict(name="A0", menu=menu, program=[1, 14, 5, 27], markets=["M0", "M1", "M2"]),
               dict(name="A1", menu=menu, program=[2, 15, 6, 28], markets=["M0", "M1", "M2"])]
        ev = {"PLG": {"class": "PriceLimitRule", "targetMarkets": ["M1", "M2"], "triggerChangeRate": 0.5},
              "PLP": {"extends": "PLG", "targetMarkets": ["M0"], "triggerChangeRate": 0.125},
              "PL": dict({"extends": "PLP"}, **({"triggerChangeRate": 0.25} if leaf_keys else {}))}
        sessions = [S(0, 2, True, False, maxNormalOrders=2, events=["PL"]), S(1, 2, True, True, maxNormalOrders=2)]
        sc[name] = Scenario(name, mkcfg(sessions, markets=markets, agents=ags, events=ev),
                            meta=dict(limit_rule=dict(targets=["M0"], r=0.25 if leaf_keys else 0.125, enabled=True)))
    # two rules in one run: different target sets and different rates
    for (ta, ra), (tb, rb) in (((["M0"], 0.125), (["M1"], 0.25)), ((["M1"], 0.25), (["M0"], 0.125)), ((["M0", "M1"], 0.25), (["M2"], 0.125))):
        name = "two_rules:%s@%s+%s@%s" % ("+".join(ta), ra, "+".join(tb), rb)
        menu = menus(0.25, 1.0)
        markets = [dict(name="M%d" % i, tick=1.0) for i in range(3)]
        ags = [dict(name="A0", menu=menu, program=[1, 14, 5, 27], markets=["M0", "M1", "M2"]),
               dict(name="A1", menu=menu, program=[2, 15, 6, 28], markets=["M0", "M1", "M2"])]
        ev = {"PA": {"class": "PriceLimitRule", "targetMarkets": ta, "triggerChangeRate": ra},
              "PB": {"class": "PriceLimitRule", "targetMarkets": tb, "triggerChangeRate": rb}}
        sessions = [S(0, 2, True, False, maxNormalOrders=2, events=["PA", "PB"]), S(1, 2, True, True, maxNormalOrders=2)]
        sc[name] = Scenario(name, mkcfg(sessions, markets=markets, agents=ags, events=ev),
                            meta=dict(limit_rules=[dict(targets=ta, r=ra, enabled=True), dict(targets=tb, r=rb, enabled=True)]))
    return sc


def on_exc(w):
    return ("C15.run_aborted", "the run aborted (orders for markets that are not targets must be accepted unchanged) | %s: %s" % (type(w.exc).__name__, str(w.exc)[:80]))


def run(tier, seed):
    res = common.Result("C15", tier, seed)
    sc = scenarios(tier)
    run_r("C15", tier, seed, sc, [acc_C15], 1 if tier == "quick" else 2, on_exc, WIT, RULE, res=res, label="rule_grid", split=0)
    deep = {k: v for k, v in sc.items() if k in ("limit:M0-r0.25-tick1.0-exec_only-on", "limit:M1-r0.125-tick0.5-noexec_first-on",
                                                  "limit:M0+M1-r0.125-tick1.0-rule_in_session1-on")}
    run_r("C15", tier, seed, deep, [acc_C15], 2 if tier == "quick" else 3, on_exc, WIT, RULE, res=res, label="rule_grid_deeper")
    return res


def replay(payload):
    return replay_r(scenarios("thorough"), [acc_C15], on_exc, payload)
