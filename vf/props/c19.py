"""C19: off-grid limit prices round to the tick grid, never more aggressively -- Engine F through a real Market."""
import math
from fractions import Fraction as F

from .. import common
from ..common import Violation
from ..enum_f import run_grid

common.import_pams()
from pams.market import Market  # noqa: E402
from pams.simulator import Simulator as _Simulator  # noqa: E402
import random as _random  # noqa: E402
from pams.order import LIMIT_ORDER, MARKET_ORDER, Order  # noqa: E402

RULE = ("every price of the exact domain (ticks 1/8..100 exactly representable x all k/32 up to 40 plus the neighbourhoods of grid "
        "points: adjacent floats and quarter points, incl. large grid indices) and of the decimal domain (ticks 0.1, 0.01, 0.001, "
        "1e-5 with the same neighbourhoods; int-typed ticks 1, 2, 10 and int-typed prices as JSON produces them), both sides, submitted to a real Market through _add_order; oracle in exact rational "
        "arithmetic over the float values; distinct = (tick, on/off grid, side, direction moved) classes")
# the last three are int-typed, as "tickSize": 1 in a JSON configuration produces them
EXACT_TICKS = [0.125, 0.25, 0.5, 1.0, 2.0, 3.0, 5.0, 10.0, 100.0, 1, 2, 10]
DEC_TICKS = [0.1, 0.01, 0.001, 0.00001]
WIT = ["on_grid_unchanged", "buy_rounded_down", "sell_rounded_up", "adjacent_float_below_grid", "adjacent_float_above_grid",
       "decimal_tick_case", "market_order_untouched", "large_grid_index", "same_price_both_sides_one_market", "long_lived_market_submissions", "tick_size_reassigned_after_setup", "runner_configured_tick"]


def neighbourhood(tick, ks):
    c = set()
    for k in ks:
        g = k * tick
        c |= {g, math.nextafter(g, math.inf), math.nextafter(g, -math.inf), g + tick / 2, g + tick / 4, g + tick * 0.75}
    return sorted(x for x in c if x > 2.0 ** -20)


class _Truthy(int):
    """an is_buy flag that is truthy / falsy without being the bool singletons (numpy.bool_, 1 / 0 behave like this)"""


def cases(tier):
    ks = list(range(0, 41)) + [1000, 12345, 30000000]
    if tier != "quick":
        ks += list(range(41, 400)) + [2 ** 20, 2 ** 20 + 1, 99999999]
    for tick in EXACT_TICKS:
        ps = neighbourhood(tick, ks) + [j / 32 for j in range(1, 1281 if tier == "quick" else 6401)] + list(range(1, 42))
        for p in ps:
            for is_buy in (True, False):
                yield (tick, True, p, is_buy)
    for tick in DEC_TICKS:
        for p in neighbourhood(tick, ks):
            for is_buy in (True, False):
                yield (tick, False, p, is_buy)
    for tick in (1.0, 0.1):
        for is_buy in (True, False):
            yield (tick, True, None, is_buy)
    # negative limit prices (accepted by pams with a warning): the same rules hold below zero
    for tick in (0.25, 1.0, 2.5):
        for j in range(1, 81):
            for is_buy in (True, False):
                yield (tick, True, -j / 8, is_buy)
    # side flags that are truthy / falsy without being True / False (what a numpy comparison or 1 / 0 gives)
    import numpy
    for tick in (0.5, 1.0, 2.5):
        for p in (100.25, 100.5, 101.0, 99.75, 7.3):
            for flag in (1, 0, numpy.bool_(True), numpy.bool_(False)):
                yield (tick, True, p, flag)


def strict_cases(tier):
    """the tick-rounding grid once more under a warnings filter that turns warnings into exceptions (python -W error, pytest's
    filterwarnings = error): an off-grid order is then either refused altogether or accepted as usual"""
    for c in cases("quick"):
        if c[2] is not None and (c[2] % 1 != 0 or c[0] != 1.0):
            yield c + (True,)


def fn(case, wit):
    strict = len(case) == 5
    tick, exact, p, is_buy = case[:4]
    if strict:
        import warnings
        m = Market(0, _random.Random(0), _Simulator(prng=_random.Random(1)), "m")
        m.setup({"tickSize": tick, "marketPrice": 100.0})
        m._update_time(100.0)
        o = Order(0, 0, is_buy, LIMIT_ORDER, 1, price=p)
        with warnings.catch_warnings():
            warnings.simplefilter("error")  # only the submission itself runs under the strict filter
            try:
                m._add_order(o)
            except Warning:
                if len(m.buy_order_book.priority_queue) + len(m.sell_order_book.priority_queue) != 0 or o.placed_at is not None:
                    raise Violation("C19.refused_but_booked", "an order whose submission was refused (a warning escalated to an exception) is in the book all the same",
                                    "tick %r price %r %s" % (tick, p, "buy" if is_buy else "sell"))
                wit.inc("refused_under_strict_warnings")
                return ("refused", tick, is_buy)
        wit.inc("accepted_under_strict_warnings")
        return _judge(tick, exact, p, is_buy, o.price, wit)
    m = Market(0, _random.Random(0), _Simulator(prng=_random.Random(1)), "m")
    m.setup({"tickSize": tick, "marketPrice": 100.0})
    m._update_time(100.0)
    if p is None:
        o = Order(0, 0, is_buy, MARKET_ORDER, 1)
        m._add_order(o)
        if o.price is not None:
            raise Violation("C19.market_order", "a market order was given a price")
        wit.inc("market_order_untouched")
        return ("mkt",)
    o = Order(0, 0, is_buy, LIMIT_ORDER, 1, price=p)
    m._add_order(o)
    return _judge(tick, exact, p, is_buy, o.price, wit)


def _judge(tick, exact, p, is_buy, a, wit):
    ft, fp, fa = F(tick), F(p), F(a)
    why = None
    if exact:
        on = (fp / ft).denominator == 1
        if on:
            if a != p:
                why = ("C19.on_grid_changed", "a price already on the grid was changed")
            wit.inc("on_grid_unchanged")
        else:
            if is_buy and fa > fp:
                why = ("C19.more_aggressive", "an off-grid buy price was moved up (more aggressive)")
            elif not is_buy and fa < fp:
                why = ("C19.more_aggressive", "an off-grid sell price was moved down (more aggressive)")
            elif abs(fa - fp) >= ft:
                why = ("C19.too_far", "an off-grid price was moved by a tick or more")
            elif (fa / ft).denominator != 1:
                why = ("C19.off_grid_result", "the accepted price is not a multiple of the tick size")
            wit.inc("buy_rounded_down" if is_buy else "sell_rounded_up")
            if abs(fp - round(fp / ft) * ft) < ft / 1000:
                wit.inc("adjacent_float_below_grid" if fp < round(fp / ft) * ft else "adjacent_float_above_grid")
            if fp / ft > 10 ** 6:
                wit.inc("large_grid_index")
        cls = (tick, on, is_buy, (fa > fp) - (fa < fp))
    else:
        slack = 4 * F(math.ulp(p))
        wit.inc("decimal_tick_case")
        if p % tick == 0:
            if abs(fa - fp) > slack:
                why = ("C19.on_grid_changed", "a price on the (float) grid was changed")
        else:
            if is_buy and fa > fp + slack:
                why = ("C19.more_aggressive", "an off-grid buy price was moved up (more aggressive)")
            elif not is_buy and fa < fp - slack:
                why = ("C19.more_aggressive", "an off-grid sell price was moved down (more aggressive)")
            elif abs(fa - fp) >= ft + slack:
                why = ("C19.too_far", "an off-grid price was moved by more than a tick")
            elif a != round(fa / ft) * tick:
                why = ("C19.off_grid_result", "the accepted price is not the float of a grid point")
        cls = (tick, p % tick == 0, is_buy, (fa > fp) - (fa < fp))
    if why:
        raise Violation(why[0], why[1], "tick %r price %r %s -> accepted %r" % (tick, p, "buy" if is_buy else "sell", a))
    return cls


def seq_cases(tier):
    """the same off-grid price submitted to ONE market on both sides, in both orders, and repeated"""
    ks = [0, 1, 2, 3, 7, 40, 1000]
    for tick, exact in [(t, True) for t in EXACT_TICKS] + [(t, False) for t in DEC_TICKS]:
        for p in neighbourhood(tick, ks):
            for order in ((True, False), (False, True), (True, True, False), (False, False, True)):
                yield (tick, exact, p, order)


def seq_fn(case, wit):
    tick, exact, p, order = case
    m = Market(0, _random.Random(0), _Simulator(prng=_random.Random(1)), "m")
    m.setup({"tickSize": tick, "marketPrice": 100.0})
    m._update_time(100.0)
    m._is_running = False  # orders only rest: the book may cross, nothing is matched
    got = []
    for is_buy in order:
        o = Order(0, 0, is_buy, LIMIT_ORDER, 1, price=p)
        m._add_order(o)
        got.append(o.price)
    ft, fp = F(tick), F(p)
    slack = 0 if exact else 4 * F(math.ulp(p))
    for is_buy, a in zip(order, got):
        fa = F(a)
        if (is_buy and fa > fp + slack) or (not is_buy and fa < fp - slack):
            raise Violation("C19.more_aggressive", "an off-grid %s price was moved %s (more aggressive)" % (
                ("buy", "up") if is_buy else ("sell", "down")),
                "tick %r price %r sides submitted to one market in the order %s -> accepted %r" % (tick, p, ["buy" if b else "sell" for b in order], got))
        if abs(fa - fp) >= ft + slack:
            raise Violation("C19.too_far", "an off-grid price was moved by a tick or more", "tick %r price %r -> %r" % (tick, p, got))
        if (exact and (fa / ft).denominator != 1) or (not exact and a != round(fa / ft) * tick):
            raise Violation("C19.off_grid_result", "the accepted price is not a multiple of the tick size", "tick %r price %r -> %r" % (tick, p, got))
    wit.inc("same_price_both_sides_one_market")
    return (tick, order)


def shared_cases(tier):
    for tick, exact in [(t, True) for t in EXACT_TICKS] + [(t, False) for t in DEC_TICKS]:
        for direction in ("ascending", "descending", "sides_swapped", "rewritten_before_acceptance", "running_with_quotes"):
            yield (tick, exact, direction)
        # the market is set up with another tick size; its public tick_size attribute is then assigned the new one
        # (a tick-size reform by an event, a subclass computing its tick after setup) before the domain is submitted
        for old in (1.0, 0.25, 10.0):
            if old != tick:
                yield (tick, exact, "tick_size_changed_from_%r" % old)


def shared_fn(case, wit):
    """the whole price domain of one tick size submitted to ONE long-lived market (so that any state the
    market keeps between submissions is exercised), each acceptance compared with the same oracle"""
    tick, exact, direction = case
    ks = list(range(0, 41)) + [1000, 12345]
    ps = neighbourhood(tick, ks)
    if direction == "descending":
        ps = ps[::-1]
    m = Market(0, _random.Random(0), _Simulator(prng=_random.Random(1)), "m")
    if direction.startswith("tick_size_changed_from_"):
        old = float(direction[len("tick_size_changed_from_"):])
        m.setup({"tickSize": old, "marketPrice": 100.0})
        m._update_time(100.0)
        m._is_running = False
        for p in (old * 3, old * 3 + old / 2):
            m._add_order(Order(0, 0, True, LIMIT_ORDER, 1, price=p))
            m._add_order(Order(0, 0, False, LIMIT_ORDER, 1, price=p + 50 * old))
        m.tick_size = tick
        wit.inc("tick_size_reassigned_after_setup")
    else:
        m.setup({"tickSize": tick, "marketPrice": 100.0})
        m._update_time(100.0)
        m._is_running = False
    if direction == "running_with_quotes":
        # the market is running and quoted on both sides around the middle of the domain, so that half of the submissions
        # cross the opposite best quote (no matching round is requested here: acceptance alone is judged)
        m._is_running = True
        mid = ps[len(ps) // 2]
        m._add_order(Order(0, 0, True, LIMIT_ORDER, 10 ** 6, price=mid))
        m._add_order(Order(0, 0, False, LIMIT_ORDER, 10 ** 6, price=mid + 2 * tick))
    for i, p in enumerate(ps):
        for is_buy in ((True, False) if direction != "sides_swapped" else (False, True)):
            if direction == "rewritten_before_acceptance":
                # the order object is built as something else and rewritten before it reaches the market, the way the
                # built-in events do it (order-mistake shock: side, kind, volume, price, ttl; price limit rule: price)
                if i % 2 == 0:
                    o = Order(0, 0, not is_buy, MARKET_ORDER, 3)
                    o.is_buy, o.kind, o.volume, o.price, o.ttl = is_buy, LIMIT_ORDER, 1, p, 2
                else:
                    o = Order(0, 0, is_buy, LIMIT_ORDER, 1, price=tick * 7)
                    o.price = p
            else:
                o = Order(0, 0, is_buy, LIMIT_ORDER, 1, price=p)
            m._add_order(o)
            a = o.price
            ft, fp, fa = F(tick), F(p), F(a)
            slack = 0 if exact else 4 * F(math.ulp(p))
            on = ((fp / ft).denominator == 1) if exact else (p % tick == 0)
            bad = None
            if on and abs(fa - fp) > slack:
                bad = ("C19.on_grid_changed", "a price already on the grid was changed")
            elif not on and ((is_buy and fa > fp + slack) or (not is_buy and fa < fp - slack)):
                bad = ("C19.more_aggressive", "an off-grid %s price was moved %s (more aggressive)" % (("buy", "up") if is_buy else ("sell", "down")))
            elif not on and abs(fa - fp) >= ft + slack:
                bad = ("C19.too_far", "an off-grid price was moved by a tick or more")
            elif (exact and (fa / ft).denominator != 1) or (not exact and a != round(fa / ft) * tick):
                bad = ("C19.off_grid_result", "the accepted price is not a multiple of the tick size")
            if bad:
                raise Violation(bad[0], bad[1], "tick %r: submission #%d to one long-lived market, price %r %s -> accepted %r" % (
                    tick, 2 * i, p, "buy" if is_buy else "sell", a))
            wit.inc("long_lived_market_submissions")
    return (tick, direction)


def runner_cases(tier):
    for chain in ("own", "parent", "grandparent_and_parent", "grandparent_only"):
        for tick in (0.25, 2.5, 1):
            yield (chain, tick)


def runner_fn(case, wit):
    """the tick size a market gets through the runner is the configured one (own key, else the nearest ancestor's), and
    orders submitted to that market are rounded on that grid"""
    import random
    from pams.runners.sequential import SequentialRunner
    chain, tick = case
    other = 10.0
    cfg = {"simulation": {"markets": ["M"], "agents": ["A"], "sessions": [{"sessionName": 0, "iterationSteps": 1, "withOrderPlacement": True,
                                                                             "withOrderExecution": True, "withPrint": False}]},
           "A": {"class": "FCNAgent", "numAgents": 1, "markets": ["M"], "cashAmount": 100, "assetVolume": 1, "fundamentalWeight": 1.0, "chartWeight": 0.0,
                 "noiseWeight": 0.0, "noiseScale": 0.001, "timeWindowSize": 3, "orderMargin": 0.0},
           "G": {"class": "Market", "marketPrice": 100.0, "tickSize": other}, "P": {"extends": "G"}, "M": {"extends": "P"}}
    if chain == "own":
        cfg["P"]["tickSize"] = other
        cfg["M"]["tickSize"] = tick
    elif chain == "parent":
        cfg["P"]["tickSize"] = tick
    elif chain == "grandparent_and_parent":
        cfg["G"]["tickSize"] = other
        cfg["P"]["tickSize"] = tick
    else:
        cfg["G"]["tickSize"] = tick
    r = SequentialRunner(cfg, random.Random(2), None)
    r._setup()
    m = r.simulator.name2market["M"]
    m._update_time(100.0) if m.get_time() < 0 else None
    m._is_running = False
    ft = F(tick)
    for p in (tick * 3 + tick / 4, tick * 40 + tick / 2, 7.3, 101.0625):
        for is_buy in (True, False):
            o = Order(0, m.market_id, is_buy, LIMIT_ORDER, 1, price=p)
            m._add_order(o)
            fa, fp = F(o.price), F(p)
            if (fa / ft).denominator != 1 or (is_buy and fa > fp) or (not is_buy and fa < fp) or abs(fa - fp) >= ft:
                raise Violation("C19.configured_grid", "a limit price was not rounded onto the grid of the tick size the configuration gives the market (own key, else nearest ancestor)",
                                "tick %r configured at %s: market.tick_size=%r, %s %r accepted at %r" % (tick, chain, m.tick_size, "buy" if is_buy else "sell", p, o.price))
    wit.inc("runner_configured_tick")
    return case


def run(tier, seed):
    res = common.Result("C19", tier, seed)
    run_grid(res, "tick_size_through_the_runner", list(runner_cases(tier)), runner_fn, seed)
    run_grid(res, "tick_rounding", list(cases(tier)), fn, seed)
    run_grid(res, "tick_rounding_under_strict_warnings", list(strict_cases(tier)), fn, seed)
    run_grid(res, "same_price_both_sides", list(seq_cases(tier)), seq_fn, seed)
    run_grid(res, "one_long_lived_market", list(shared_cases(tier)), shared_fn, seed)
    res.coverage["evaluations"] += res.coverage["witness_classes"].get("long_lived_market_submissions", 0)
    res.coverage["exhaustive"] = True
    res.coverage["rule"] = RULE
    res.assumptions = ["on decimal tick sizes each inequality is allowed a slack of 4 ulp(price) and 'grid point' means the float k*tick (the property's own 'up to floating-point representation of the grid' clause)",
                       "denormal prices are outside the domain"]
    res.require_witness(WIT)
    return res


def replay(payload):
    if payload.get("grid") == "same_price_both_sides":
        c = payload["case"]
        try:
            seq_fn((c[0], c[1], c[2], tuple(c[3])), common.Counter())
        except Violation as v:
            print("  ==> VIOLATION %s: %s" % (v.monitor, v.msg))
            print("VIOLATION property=C19 replay=(this file)")
            return 1
        print("replay: no violation on this tree")
        return 0
    if payload.get("grid") == "tick_size_through_the_runner":
        try:
            runner_fn(tuple(payload["case"]), common.Counter())
        except Violation as v:
            print("  ==> VIOLATION %s: %s" % (v.monitor, v.msg))
            print("VIOLATION property=C19 replay=(this file)")
            return 1
        print("replay: no violation on this tree")
        return 0
    if payload.get("grid") == "one_long_lived_market":
        try:
            shared_fn(tuple(payload["case"]), common.Counter())
        except Violation as v:
            print("  ==> VIOLATION %s: %s" % (v.monitor, v.msg))
            print("VIOLATION property=C19 replay=(this file)")
            return 1
        print("replay: no violation on this tree")
        return 0
    case = tuple(payload["case"])
    print("case (tick, exact domain, price, is_buy) =", case)
    try:
        fn(case, common.Counter())
    except Violation as v:
        print("  ==> VIOLATION %s: %s" % (v.monitor, v.msg))
        print("VIOLATION property=C19 replay=(this file)")
        return 1
    print("replay: no violation on this tree")
    return 0
