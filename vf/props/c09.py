"""C09: session rules (placement/execution switches, caps, HFT interleaving) -- Engine R."""
from ._r import run_r, replay_r
from ..acceptors_r import acc_C09
from ..scenarios_r import base_family
from ..explore_r import Scenario, S, mkcfg
from .. import scenarios_r as SC

WIT = ["accept_during_halt", "step_without_placement", "step_without_execution", "step_with_execution", "normal_cap_reached",
       "normal_cap_not_reached", "normal_cap_zero", "hft_phase", "hft_skipped_by_rate_draw", "hft_cap_reached",
       "hft_cap_zero", "two_order_batch", "hft_two_order_batch", "empty_batch", "two_normal_batches_in_step"]
RULE = ("deviation-bounded enumeration of all executions of the real SequentialRunner around each base scenario: every "
        "permutation handed out by sample(), every rate draw from the answer list, every menu choice of every scripted agent; "
        "the run-loop acceptor derived from the C09 statement is evaluated on the ground-truth event record of every execution; "
        "distinct = distinct outcome digests")


def scenarios(tier):
    sc = base_family()
    halt = {"halt": {"class": "TradingHaltRule", "targetMarkets": ["M0"], "triggerChangeRate": 0.05, "haltingTimeLength": 2}}
    # a halt rule listed under a LATER session: hooks are registered for the whole run
    sc["I_halt_rule_later_session"] = Scenario("I_halt_rule_later_session", mkcfg(
        [S(0, 5, True, False, maxNormalOrders=2), S(1, 3, True, True, maxNormalOrders=2, events=["halt"])],
        agents=SC.agents(2, 0), events=halt), meta=dict(halt_targets=["M0"]))
    sc["J_halt_rule_same_session"] = Scenario("J_halt_rule_same_session", mkcfg(
        [S(0, 5, True, False, maxNormalOrders=2, events=["halt"]), S(1, 2, True, True, maxNormalOrders=2)],
        agents=SC.agents(2, 0), events=halt), meta=dict(halt_targets=["M0"]))
    evs = {"fshock": {"class": "FundamentalPriceShock", "target": "M0", "triggerTime": 1, "priceChangeRate": -0.5, "shockTimeLength": 1},
           "limit": {"class": "PriceLimitRule", "targetMarkets": ["M0"], "triggerChangeRate": 0.5},
           "mistake": {"class": "OrderMistakeShock", "target": "M0", "triggerTime": 1, "priceChangeRate": -0.5, "orderVolume": 3, "orderTimeLength": 2}}
    sc["K_other_events"] = Scenario("K_other_events", mkcfg(
        [S(0, 3, True, False, maxNormalOrders=2, events=["fshock", "limit", "mistake"]), S(1, 2, True, True, maxNormalOrders=2)],
        agents=SC.agents(2, 1), events=evs))
    return sc


def acc_C09_with_halts(w):
    """"... unless a trading halt is in force": whether one is in force is judged from the rule's configuration (the halt
    schedule of C16), not from the flags the system keeps -- a market the system treats as stopped although no halt should
    be in force (or the reverse) breaks the matching clause of C09 just as well"""
    acc_C09(w)
    if "halt_rules" in w.scn.meta and any(e[0] == "obs" for e in w.ev):
        from ..acceptors_r2 import acc_C16
        from ..common import Violation
        try:
            acc_C16(w)
        except Violation as v:
            if v.monitor in ("C16.schedule", "C16.schedule_end", "C16.running_at_order", "C16.fill_during_halt", "C16.fill_while_stopped"):
                raise Violation("C09.halt_state", "matching is suspended (or goes on) although by the configured halt rules no halt (a halt) is in force at that moment | " + v.msg)


def on_exc(w):
    return ("C09.run_aborted", "the run aborted with %s: %s" % (type(w.exc).__name__, str(w.exc)[:80]))


def run(tier, seed):
    from .. import common
    from ..families import cross_family
    res = common.Result("C09", tier, seed)
    run_r("C09", tier, seed, scenarios(tier), [acc_C09], 2 if tier == "quick" else 3, on_exc, WIT, RULE, res=res)
    x = {k: v for k, v in cross_family(tier).items() if not k.startswith("x:c09:")}
    run_r("C09", tier, seed, x, [acc_C09_with_halts], 1, on_exc, [], RULE, res=res, label="cross_family", split=0)
    return res


def replay(payload):
    from ..families import cross_family
    sc = scenarios("thorough")
    sc.update(cross_family("thorough"))
    return replay_r(sc, [acc_C09_with_halts], on_exc, payload)
