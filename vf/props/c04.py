"""C04: order accounting and lifetime (Engine M)."""
from ._m import run_generic, replay_generic
from ..monitors_m import C04Mon

WIT = ["order_with_ttl", "fill_in_last_step_of_ttl", "cancel_of_partially_filled", "cancel_of_filled", "cancel_of_resting", "cancel_of_cancelled", "cancel_of_expired", "expiry", "expiry_of_partially_filled", "expiry_of_market_order"]
RULE = ("every operation history over the alphabet (clock step, clock set several steps ahead in one call, limit/market submissions with and without time-to-live, "
        "cancels of live and dead orders (also through an equal-valued copy of the order), matching round, running switch) up to the stated depth from the empty book and "
        "from each seed book, in continuous and in batch mode, executed on a real Market; a per-order ledger fed with the implementation's own fills predicts resting volume, terminal volumes, book membership and the expiry step in every reached state; "
        "distinct = canonical market states")


def factory():
    return [C04Mon()]


BAD = ("resubmit", "wrongmarket", "cancel_unsubmitted", "cancel_wrongmarket")


def ctor_cases():
    import itertools
    for kind in ("L", "M"):
        for price in (None, -1.0, 0.0, 100.0):
            for volume in (-1, 0, 1, 3):
                for ttl in (None, -1, 0, 1, 5):
                    yield (kind, price, volume, ttl)


def ctor_fn(case, wit):
    """Order constructor grid: what must be refused is refused (by the constructor or at the latest
    by the market), everything else is accepted."""
    from ..common import Violation
    import random as _random
    from pams.market import Market
    from pams.simulator import Simulator as _Simulator
    from pams.order import LIMIT_ORDER, MARKET_ORDER, Order
    kind, price, volume, ttl = case
    must_reject = volume <= 0 or (kind == "L" and price is None) or (kind == "M" and price is not None) or (ttl is not None and ttl < 0)
    unspecified = ttl == 0 or (price is not None and price <= 0)
    m = Market(0, _random.Random(0), _Simulator(prng=_random.Random(1)), "m")
    m.setup({"tickSize": 1.0, "marketPrice": 100.0})
    m._update_time(100.0)
    try:
        o = Order(0, 0, True, LIMIT_ORDER if kind == "L" else MARKET_ORDER, volume, price=price, ttl=ttl)
        m._add_order(o)
        accepted = True
    except Exception:  # noqa
        accepted = False
    if must_reject and accepted:
        raise Violation("C04.ctor_accepts", "an order with non-positive volume, negative time-to-live or inconsistent kind/price was accepted",
                        "kind %s price %s volume %s ttl %s" % case)
    if not must_reject and not unspecified and not accepted:
        raise Violation("C04.ctor_rejects", "a valid order was refused", "kind %s price %s volume %s ttl %s" % case)
    wit.inc("ctor_rejected" if not accepted else "ctor_accepted")
    return (kind, accepted)


def acc_invalid_programs(w):
    """Engine R: no order object is accepted twice, by a market other than the one it names, or under
    an id other than its submitter's; nobody's order is cancelled by somebody else."""
    from ..acceptors_r import V
    seen = set()
    owner = {}
    for e in w.ev:
        if e[0] == "consult":
            for x in e[4]:
                owner.setdefault(id(getattr(x, "order", x)) if x.__class__.__name__ == "Cancel" else id(x), e[1])
                if x.__class__.__name__ == "Cancel":
                    owner[("cancel", id(x.order))] = e[1]
        elif e[0] == "acc":
            o = e[3]
            V(id(o) not in seen, "C04.accepted_twice", "an order object was accepted twice")
            seen.add(id(o))
            V(o.market_id == e[1], "C04.wrong_market", "an order was accepted by a market other than the one it names")
            V(owner.get(id(o)) == e[2].agent_id, "C04.foreign_id", "an order was accepted under an id other than its submitter's",
              "submitted by agent %s, accepted for agent %s" % (owner.get(id(o)), e[2].agent_id))
            w.wit.inc("acceptances_checked")
        elif e[0] == "can":
            o = e[3]
            V(owner.get(("cancel", id(o))) == o.agent_id, "C04.foreign_cancel", "an agent's cancel of somebody else's order was accepted")


def on_exc_invalid(w):
    inv = [e for e in w.ev if e[0] == "invalid"]
    if inv:
        w.wit.inc("invalid_program_rejected_" + inv[-1][2])
        # the run must stop AT the invalid submission: nothing of it may have been accepted
        try:
            acc_invalid_programs(w)
        except Exception as v:  # noqa
            return (getattr(v, "monitor", "C04.invalid"), getattr(v, "msg", str(v)))
        return None
    return ("C04.run_aborted", "a run of valid agent programs aborted | %s: %s" % (type(w.exc).__name__, str(w.exc)[:80]))


def acc_invalid_must_abort(w):
    inv = [e for e in w.ev if e[0] == "invalid"]
    acc_invalid_programs(w)
    if inv:
        from ..common import Violation
        raise Violation("C04.invalid_accepted", "a run continued although an agent re-submitted an accepted order object, used a foreign id, cancelled somebody else's order or handed one object over twice",
                        "%s by agent %s" % (inv[0][2], inv[0][1]))


def invalid_scenarios():
    from ..explore_r import Scenario, S, mkcfg, bl, sl
    from ..scenarios_r import CL
    menu = [[], [bl(0, 101)], [sl(0, 99)], [bl(0, 99)], [CL], [["RESUBMIT"]], [["RESUBMIT", "live"]], [["SPOOF"]], [["CANCEL_OTHER"]], [["TWICE"]],
            [bl(0, 100), ["RESUBMIT"]], [bl(0, 100), ["SPOOF"]], [["SPOOF"], sl(0, 100)], [bl(0, 98), ["CANCEL_OTHER"]], [["CANCEL_OTHER"], bl(0, 98)]]
    ags = [dict(name="A0", menu=menu, program=[1, 3, 0], markets=["M0"]), dict(name="A1", menu=menu, program=[2, 0, 3], markets=["M0"]),
           dict(name="H0", cls="ScriptedHFAgent", menu=menu, program=[0, 3], markets=["M0"])]
    return {"invalid_programs": Scenario("invalid_programs", mkcfg(
        [S(0, 2, True, False, maxNormalOrders=2, maxHighFrequencyOrders=1), S(1, 2, True, True, maxNormalOrders=2, maxHighFrequencyOrders=1)],
        agents=ags))}


def run(tier, seed):
    alphabet = __import__("vf.explore_m", fromlist=["alphabet"]).alphabet
    # "jump": the clock may also be set 2 or 3 steps ahead in one call (Market._set_time), time-to-live 1 and 2
    alph = {"quick_bad": alphabet(bad=BAD),
            "jump": alphabet(vols=(1,), mvols=(1,), ttls=(None, 1, 2), mttls=(None, 1), cancels=2, dead=("expired",)) + [("J", 2), ("J", 3)]}
    extra = [("empty", "free", 3 if tier == "quick" else 4, "quick_bad"), ("partial", "free", 2, "quick_bad"), ("expiring", "cont", 2, "quick_bad")]
    extra += [("empty", mode, 3 if tier == "quick" else 4, "jump") for mode in ("cont", "free")]
    extra += [(sd, "free", 2 if tier == "quick" else 3, "jump") for sd in ("expiring", "same_expiry", "mixed_ttl")]
    # "copycancel": cancels that wrap an equal-valued copy of the resting order instead of the object itself
    alph["copycancel"] = alphabet(vols=(1, 2), mvols=(1,), ttls=(None, 1), mttls=(None,), cancels=0, dead=()) + [("CC", 0), ("CC", 1), ("CC", 2)]
    extra += [("empty", mode, 3 if tier == "quick" else 4, "copycancel") for mode in ("cont", "free")]
    extra += [(sd, "free", 2 if tier == "quick" else 3, "copycancel") for sd in ("two_sided_no_trade", "partial", "expiring")]
    # "directfill": a fill applied to one chosen resting order (not necessarily the best of its side) through the order book's
    # public change_order_volume
    alph["directfill"] = alphabet(vols=(1, 2), mvols=(1,), ttls=(None, 1), mttls=(None,), cancels=1, dead=()) + [("DF", i, how) for i in (0, 1, 2) for how in ("all", "one")]
    extra += [("empty", "free", 3 if tier == "quick" else 4, "directfill")]
    extra += [(sd, "free", 2 if tier == "quick" else 3, "directfill") for sd in ("deep", "ladder_buy", "ladder_sell", "expiring", "mixed_ttl", "same_expiry")]
    res = run_generic("C04", tier, seed, factory, WIT + ["bad_op_rejected"], RULE, extra_alph=alph, extra_plan=extra)
    from ..enum_f import run_grid
    ev0, dn0 = res.coverage["evaluations"], res.coverage["distinct_nontrivial"]
    run_grid(res, "order_constructor_grid", list(ctor_cases()), ctor_fn, seed)
    from ._r import run_r
    run_r("C04", tier, seed, invalid_scenarios(), [acc_invalid_must_abort], 2 if tier == "quick" else 3, on_exc_invalid,
          ["ctor_rejected", "ctor_accepted", "acceptances_checked", "invalid_program_rejected_resubmit", "invalid_program_rejected_spoof",
           "invalid_program_rejected_cancel_other", "invalid_program_rejected_twice_in_batch"], RULE, res=res, label="invalid_agent_programs")
    # whole runs: the accounting identity on every order of every execution of all Engine-R scenario families (orders
    # rewritten by events, high-frequency agents, halts, sessions without execution)
    from ._r import run_whole_runs
    from ..acceptors_r import acc_C04
    run_whole_runs(res, "C04", tier, seed, [acc_C04], RULE)
    return res


def replay(payload):
    if payload.get("engine") == "R" and payload.get("scenario") != "invalid_programs":
        from ._r import replay_whole_runs
        from ..acceptors_r import acc_C04
        return replay_whole_runs(payload, [acc_C04])
    if payload.get("engine") == "R":
        from ._r import replay_r
        return replay_r(invalid_scenarios(), [acc_invalid_must_abort], on_exc_invalid, payload)
    if payload.get("engine") == "F" and payload.get("grid") not in ("deep_one_sided_books", "heap_layouts", "books_with_ties"):
        from ..common import Violation, Counter
        try:
            ctor_fn(tuple(payload["case"]), Counter())
        except Violation as v:
            print("  ==> VIOLATION %s: %s" % (v.monitor, v.msg))
            print("VIOLATION property=C04 replay=(this file)")
            return 1
        print("replay: no violation on this tree")
        return 0
    return replay_generic(payload, factory)
