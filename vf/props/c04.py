"""C04: order accounting and lifetime (Engine M)."""
from ._m import run_generic, replay_generic
from ..monitors_m import C04Mon

WIT = ["order_with_ttl", "fill_in_last_step_of_ttl", "cancel_of_partially_filled", "cancel_of_filled", "cancel_of_resting", "cancel_of_cancelled", "cancel_of_expired", "expiry", "expiry_of_partially_filled", "expiry_of_market_order"]
RULE = ("every operation history over the alphabet (clock step, limit/market submissions with and without time-to-live, "
        "cancels of live and dead orders, matching round, running switch) up to the stated depth from the empty book and "
        "from each seed book, in continuous and in batch mode, executed on a real Market; a per-order ledger fed with the implementation's own fills predicts resting volume, terminal volumes, book membership and the expiry step in every reached state; "
        "distinct = canonical market states")


def factory():
    return [C04Mon()]


def run(tier, seed):
    return run_generic("C04", tier, seed, factory, WIT, RULE)


def replay(payload):
    return replay_generic(payload, factory)
