"""C06: one lock-step clock; no access to the future; recorded history never changes -- Engine R + M."""
from .. import common
from ._r import run_r, replay_r
from ..acceptors_c06 import acc_C06, make_observers
from ..explore_r import Scenario, S, mkcfg, bl, sl, bm, sm
from ..scenarios_r import CL

WIT = ["observation_points", "past_values_compared", "future_queries_refused_points", "sessions_checked", "three_sessions",
       "index_market_stepped_last", "run_crossing_100_step_chunk", "run_crossing_200_step_chunk", "chunk_size_3_run"]
RULE = ("session lists (1-3 sessions, all flag combinations, 1-4 steps) x market sets (1-4 markets, index market between its "
        "components and a further plain market) with trading programs, a fundamental shock and drift/volatility, all executions "
        "within the deviation bound; 205-step runs with activity only around steps 0, 100 and 200 (default chunks of 100) and "
        "runs with storage/generation chunks lowered to 3; every observation point compares all series for all past times with "
        "the values frozen when that time was last current, queries every getter for future times, and checks the clock; "
        "distinct = outcome digests")


def menu(nm):
    out = [[]]
    for mi in range(nm):
        out += [[bl(mi, 101)], [sl(mi, 99)], [bl(mi, 99, 2, 1)], [sl(mi, 101, 2, 1)]]
    out += [[CL], [bm(0)]]
    return out


def mk(name, sessions_spec, nm=1, index=False, extra=False, small_chunks=False, shock=False, vol=False, programs=None,
       choice_steps=None, two_indices=False, nested=False):
    markets = []
    for i in range(nm):
        d = dict(name="M%d" % i, shares=i + 1, drift=(2.0 ** -7 if i == 1 else 0.0))
        markets.append(d)
    if index:
        markets.append(dict(name="IDX", cls="ProbeIndexMarket", components=["M%d" % i for i in range(min(nm, 2))]))
    if two_indices:
        # a second index market sharing a component with the first
        markets.append(dict(name="IDX2", cls="ProbeIndexMarket", components=["M1", "M2"]))
    if nested:
        # the index market is itself a component of a second index market (and that one of a third): "index markets after
        # their components" then also orders the index markets among themselves
        markets[-1].update(shares=4, price=110.0)
        markets.append(dict(name="J", cls="ProbeIndexMarket", components=["IDX", "M1"], shares=2, price=105.0))
        markets.append(dict(name="K", cls="ProbeIndexMarket", components=["J", "M0"]))
    if extra:
        markets.append(dict(name="X", shares=3))
    mn = menu(nm)
    pa, pb = programs or ([1, 3, 1, 5], [2, 4, 2, 2])
    names = [m["name"] for m in markets]
    ags = [dict(name="A0", menu=mn, program=pa, markets=names), dict(name="A1", menu=mn, program=pb, markets=names)]
    ev = {}
    sessions = []
    for i, (steps, pl, ex) in enumerate(sessions_spec):
        kw = dict(maxNormalOrders=2)
        if shock and i == 0:
            # a shock window of two steps: its second firing must scale the CURRENT step's value only
            ev["SH"] = {"class": "FundamentalPriceShock", "target": "M0", "triggerTime": min(1, steps - 1), "priceChangeRate": 0.5,
                        "shockTimeLength": 2}
            kw["events"] = ["SH"]
        sessions.append(S(i, steps, pl, ex, **kw))
    cfg = mkcfg(sessions, markets=markets, agents=ags, events=ev)
    if vol:
        cfg["M0"]["fundamentalVolatility"] = 0.125
    obs, before_clock = make_observers()

    def post_setup(w):
        if small_chunks:
            for m in w.runner.simulator.markets:
                m.chunk_size = 3
            w.runner.simulator.fundamentals._generate_chunk_size = 3

    return Scenario(name, cfg, observer=obs, before_clock=before_clock, post_setup=post_setup, meta=dict(small_chunks=small_chunks, choice_steps=choice_steps))


def session_lists():
    flags = [(True, True), (True, False), (False, False), (False, True)]
    out = {}
    for f in flags:
        out["1s:%s" % (f,)] = [(3, f[0], f[1])]
    for f1 in flags:
        for f2 in flags:
            out["2s:%s%s" % (f1, f2)] = [(2, f1[0], f1[1]), (2, f2[0], f2[1])]
    out["3s:a"] = [(1, True, False), (4, True, True), (2, True, True)]
    out["3s:b"] = [(2, True, True), (1, False, False), (3, True, True)]
    out["3s:c"] = [(1, True, True), (1, True, True), (1, True, True)]
    # sessions without a single step, first / in the middle / last: the clock is the number of COMPLETED steps all the same
    out["z:first"] = [(0, True, True), (3, True, True)]
    out["z:first_two"] = [(0, True, False), (0, True, True), (2, True, True)]
    out["z:mid_last"] = [(2, True, True), (0, False, False), (2, True, False), (0, True, True)]
    return out


def scenarios(tier):
    sc = {}
    for k, sl_ in session_lists().items():
        n = "sess:%s" % k
        sc[n] = mk(n, sl_, nm=2, index=True, extra=True, shock=True)
    sc["one_market"] = mk("one_market", [(2, True, False), (3, True, True)], nm=1)
    sc["three_markets_vol"] = mk("three_markets_vol", [(2, True, True), (3, True, True)], nm=3, index=True, shock=True, vol=True)
    sc["two_indices_sharing_a_component"] = mk("two_indices_sharing_a_component", [(2, True, False), (3, True, True)], nm=3, index=True,
                                                 two_indices=True, shock=True)
    sc["index_of_index_of_index"] = mk("index_of_index_of_index", [(2, True, False), (3, True, True)], nm=2, index=True, nested=True, extra=True, shock=True)
    sc["chunk3:a"] = mk("chunk3:a", [(4, True, True), (4, True, False), (4, True, True)], nm=2, index=True, extra=True, small_chunks=True,
                        shock=True, vol=True, programs=([1, 3, 1, 5, 0, 1], [2, 4, 2, 2, 0, 2]))
    sc["chunk3:b"] = mk("chunk3:b", [(7, True, True)], nm=1, small_chunks=True, programs=([1, 0, 3, 1], [2, 0, 0, 4]))
    return sc


def boundary_scenarios(wide=False):
    """205 steps, activity (non-empty default programs and therefore all interesting deviations) only
    around steps 0-2, 98-102 and 198-202."""
    sc = {}
    for name, spec in (("b205:3sessions", [(99, True, True), (101, True, False), (5, True, True)]),
                       ("b205:1session", [(205, True, True)])):
        name = name + (":wide" if wide else "")
        pa = [0] * 205
        pb = [0] * 205
        act = (0, 1, 98, 99, 100, 101, 102, 198, 199, 200, 201, 202)
        if wide:
            act = tuple(range(0, 4)) + tuple(range(95, 106)) + tuple(range(195, 205))
        for t in act:
            pa[t] = [1, 3, 1, 5][t % 4]
            pb[t] = [2, 4, 2, 2][t % 4]
        sc[name] = mk(name, spec, nm=2, index=True, extra=True, shock=True, vol=True, programs=(pa, pb),
                      choice_steps=set(act) | set([2]))
    return sc


def on_exc(w):
    return ("C06.run_aborted", "the run aborted | %s: %s" % (type(w.exc).__name__, str(w.exc)[:80]))


def all_scenarios():
    sc = scenarios("thorough")
    sc.update(boundary_scenarios())
    sc.update(boundary_scenarios(wide=True))
    return sc


def run(tier, seed):
    res = common.Result("C06", tier, seed)
    run_r("C06", tier, seed, scenarios(tier), [acc_C06], 1 if tier == "quick" else 2, on_exc, [], RULE, res=res, label="session_lists")
    deep = {k: v for k, v in scenarios(tier).items() if k in ("chunk3:b", "sess:3s:c", "one_market")}
    run_r("C06", tier, seed, deep, [acc_C06], 2 if tier == "quick" else 3, on_exc, [], RULE, res=res, label="session_lists_deeper")
    # boundary runs: deviations are restricted to the choice points of the active steps by construction
    run_r("C06", tier, seed, boundary_scenarios(wide=(tier != "quick")), [acc_C06], 1, on_exc, WIT, RULE, res=res, label="chunk_boundaries_205_steps")
    # market-level half on Engine M: T-heavy histories on one Market, incl. storage chunk lowered to 4
    from ._m import ALPH
    from ..explore_m import run_m_check
    d = 3 if tier == "quick" else 4
    plan = [("chunk4", "free", d, "quick"), ("chunk4", "cont", d, "quick"), ("empty", "free", d, "lean"), ("expiring", "free", d - 1, "quick"),
            ("quoted_while_off", "cont", d, "lean"), ("quoted_while_off", "free", d - 1, "quick"), ("partial", "free", d - 1, "quick"),
            # a market 99 steps old with the default storage chunk of 100: the next clock steps grow its series
            ("step99", "free", d - 1, "quick"), ("step99", "cont", d - 1, "lean")]
    run_m_check(res, m_factory, plan, ALPH, seed, required_witness=WIT + ["tick_across_storage_chunk", "future_queries_refused"])
    return res


def m_factory():
    from ..monitors_m import C06MMon
    return [C06MMon()]


def replay(payload):
    if payload.get("engine") == "M":
        from ._m import replay_generic
        return replay_generic(payload, m_factory)
    return replay_r(all_scenarios(), [acc_C06], on_exc, payload)
