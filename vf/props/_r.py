"""Common driver for the Engine-R based checks."""
from .. import common
from ..explore_r import explore, add_violations, replay_r, run_once, describe_events


def run_r(pid, tier, seed, scns, acceptors, bound, on_exc, required_witness, rule, assumptions=(), res=None,
          label="engine_r", split=1):
    res = res or common.Result(pid, tier, seed)
    tot = explore(scns, acceptors, bound, on_exc=on_exc, seed=seed, split=split)
    add_violations(res, tot)
    cov = res.coverage
    cov["states"] = cov.get("states", 0) + len(tot["digests"])
    cov["transitions"] = cov.get("transitions", 0) + tot["points"]
    cov["traces_validated_against_impl"] = cov.get("traces_validated_against_impl", 0) + tot["n"]
    cov["evaluations"] = cov.get("evaluations", 0) + tot["n"]
    cov["distinct_nontrivial"] = cov.get("distinct_nontrivial", 0) + len(tot["digests"])
    cov.setdefault("distinct_outcomes", 0)
    cov["distinct_outcomes"] += len(tot["digests"])
    cov[label] = dict(scenarios=sorted(scns) if len(scns) <= 40 else "%d scenarios, e.g. %s" % (len(scns), sorted(scns)[:3]), deviation_bound_completed=bound, executions=tot["n"],
                      choice_points_executed=tot["points"], longest_choice_sequence=tot["maxlen"],
                      aborted_runs=tot["aborted"], subtrees=tot["tasks"], wall_s=tot["wall_s"])
    w = cov.setdefault("witness_classes", {})
    for k, v in tot["wit"].items():
        w[k] = w.get(k, 0) + v
    # samples: the default execution's choice trace of the first scenario + one deviated trace
    name = sorted(scns)[0]
    w0 = run_once(scns[name], [])
    cov.setdefault("samples", []).append(dict(scenario=name, choices=[0] * len(w0.ch.trace), events=describe_events(w0, 12)))
    if w0.ch.trace:
        i = len(w0.ch.trace) // 2
        pre = [0] * i + [1]
        w1 = run_once(scns[name], pre)
        cov["samples"].append(dict(scenario=name, choices=pre, n_events=len(w1.ev)))
    cov["exhaustive"] = True
    cov["rule"] = rule
    res.assumptions = list(assumptions) + [
        "agent programs are finite menus of order batches; the runner's PRNG answers (permutations, rate draws) are enumerated; all executions with at most the stated number of non-default choices around each base scenario are run to completion on the real runner",
    ]
    if required_witness:
        res.require_witness(required_witness)
    if len(tot["digests"]) < 2:
        res.harness_errors.append("vacuous: one outcome from %d executions" % tot["n"])
    return res


# ------------------------------------------------------------------------------------------------
# whole-run part of checks whose main engine is M (C01, C02): the statement evaluated on every matching round of
# every execution of all Engine-R scenario families


def whole_run_scenarios(tier):
    from ..families import cross_family
    from ..scenarios_r import base_family
    sc = dict(base_family())
    sc.update(cross_family(tier))
    return sc


def _not_owned(w):
    return None  # runs that abort belong to the checks that own the scenario families


def run_whole_runs(res, pid, tier, seed, acceptors, rule, on_exc=None):
    run_r(pid, tier, seed, whole_run_scenarios(tier), acceptors, 1, on_exc or _not_owned, ["whole_run_rounds_with_fills"], rule,
          res=res, label="whole_runs", split=0)
    return res


def replay_whole_runs(payload, acceptors, on_exc=None):
    return replay_r(whole_run_scenarios("thorough"), acceptors, on_exc or _not_owned, payload)
