"""C14: shocks hit only their target market, in their window, with their magnitude -- Engine R."""
from .. import common
from ._r import run_r, replay_r
from ..acceptors_r2 import acc_C14
from ..explore_r import Scenario, S, mkcfg, bl, sl, bm

WIT = ["shocked_fundamental_values", "unshocked_fundamental_values", "mistake_order_placed", "orders_unchanged",
       "order_for_other_market_at_trigger_time", "mistake_order_replaces_hft_order", "disabled_shock", "complete_runs"]
RULE = ("grid of shock placements (target market, session, trigger time, window length, rate sign, enabled), pairs of shocks "
        "(overlapping windows, same / different targets and sessions), shocks in sessions without order placement and shocks next to halt / price-limit rules bound to other "
        "markets in both listing orders x all executions "
        "within the deviation bound (activation permutations, menu choices of agents that submit to all markets); fundamental "
        "paths compared with the closed form for every market and time, every accepted order compared with what its agent "
        "returned; distinct = outcome digests")
DRIFT = {"M0": 0.0, "M1": 2.0 ** -7}
MENU = [[], [bl(0, 99)], [sl(1, 101)], [bl(1, 99)], [sl(0, 101)], [bl(0, 99), sl(1, 101)], [bm(1)], [bl(0, 99.5)]]


def _small_chunks(w):
    # generation chunk lowered to 2 (default 100) so that chunk boundaries fall inside these short runs
    w.runner.simulator.fundamentals._generate_chunk_size = 2
    for m in w.runner.simulator.markets:
        m.chunk_size = 2


def base(events, sess_events, meta, name, small_chunks=False, hft=False):
    markets = [dict(name="M0", drift=DRIFT["M0"]), dict(name="M1", drift=DRIFT["M1"], tick=0.5)]
    ags = [dict(name="A0", menu=MENU, program=[1, 1, 4], markets=["M0", "M1"]),
           dict(name="A1", menu=MENU, program=[2, 3, 2], markets=["M0", "M1"])]
    hk = {}
    if hft:
        # a high-frequency agent whose orders can be the first ones for a market in a step
        ags.append(dict(name="H0", cls="ScriptedHFAgent", menu=MENU, program=[3, 1, 2], markets=["M0", "M1"]))
        hk = dict(maxHighFrequencyOrders=1, highFrequencySubmitRate=1.0)
    sessions = [S(0, 3, True, False, maxNormalOrders=2, **dict(hk, **({"events": sess_events[0]} if sess_events[0] else {}))),
                S(1, 3, True, True, maxNormalOrders=2, **dict(hk, **({"events": sess_events[1]} if sess_events[1] else {})))]
    meta = dict(meta, initial={"M0": 100.0, "M1": 100.0}, drift=DRIFT)
    return Scenario(name, mkcfg(sessions, markets=markets, agents=ags, events=events), meta=meta,
                    post_setup=_small_chunks if small_chunks else None)


def f_scenarios():
    sc = {}
    for target in ("M0", "M1"):
        for sess in (0, 1):
            for tt in (0, 1, 2):
                for length in (1, 2, None):
                    for rate in (-0.5, 0.5):
                        for enabled in (True, False):
                            if not enabled and (rate > 0 or length == 2):
                                continue
                            name = "fshock:%s-s%d-t%d-L%s-r%s-%s" % (target, sess, tt, length, rate, "on" if enabled else "off")
                            ev = {"class": "FundamentalPriceShock", "target": target, "triggerTime": tt, "priceChangeRate": rate,
                                  "enabled": enabled}
                            if length is not None:
                                ev["shockTimeLength"] = length
                            se = [[], []]
                            se[sess] = ["SH"]
                            meta = dict(fshocks=[dict(target=target, session=sess, triggerTime=tt, length=(length or 1), rate=rate, enabled=enabled)])
                            sc[name] = base({"SH": ev}, se, meta, name)
                            if enabled and rate > 0:
                                sc[name + "-chunk2"] = base({"SH": ev}, se, meta, name + "-chunk2", small_chunks=True)
    return sc


def m_scenarios():
    sc = {}
    for target in ("M0", "M1"):
        for sess in (0, 1):
            for tt in (0, 1, 2):
                for rate in (-0.5, 0.5):
                    for life in (1, 3):
                        for enabled in (True, False):
                            if not enabled and (rate > 0 or life == 3):
                                continue
                            name = "mistake:%s-s%d-t%d-r%s-ttl%d-%s" % (target, sess, tt, rate, life, "on" if enabled else "off")
                            ev = {"class": "OrderMistakeShock", "target": target, "triggerTime": tt, "priceChangeRate": rate,
                                  "orderVolume": 5, "orderTimeLength": life, "enabled": enabled}
                            se = [[], []]
                            se[sess] = ["SH"]
                            meta = dict(mshocks=[dict(target=target, session=sess, triggerTime=tt, rate=rate, volume=5, lifetime=life, enabled=enabled)])
                            sc[name] = base({"SH": ev}, se, meta, name)
                            if enabled and life == 1:
                                sc[name + "-hft"] = base({"SH": ev}, se, meta, name + "-hft", hft=True)
    return sc


def both_scenarios():
    """a fundamental shock and an order-mistake shock in one run, different targets"""
    sc = {}
    for ft, mt in (("M0", "M1"), ("M1", "M0"), ("M0", "M0")):
        name = "both:f%s-m%s" % (ft, mt)
        evs = {"F": {"class": "FundamentalPriceShock", "target": ft, "triggerTime": 1, "priceChangeRate": 0.5, "shockTimeLength": 2},
               "Mi": {"class": "OrderMistakeShock", "target": mt, "triggerTime": 1, "priceChangeRate": -0.5, "orderVolume": 5, "orderTimeLength": 2}}
        sc[name] = base(evs, [["F"], ["Mi"]], dict(
            fshocks=[dict(target=ft, session=0, triggerTime=1, length=2, rate=0.5, enabled=True)],
            mshocks=[dict(target=mt, session=1, triggerTime=1, rate=-0.5, volume=5, lifetime=2, enabled=True)]), name)
    # a price limit rule with a band too wide to clip anything (its before-order hook is un-timed) next to the shock
    for target, first in (("M0", "M1"), ("M1", "M0")):
        name = "mistake+limit:%s" % target
        evs = {"PL": {"class": "PriceLimitRule", "targetMarkets": ["M0", "M1"], "triggerChangeRate": 0.9375},
               "Mi": {"class": "OrderMistakeShock", "target": target, "triggerTime": 1, "priceChangeRate": -0.5, "orderVolume": 5, "orderTimeLength": 2}}
        sc[name] = base(evs, [["PL", "Mi"], []], dict(mshocks=[dict(target=target, session=0, triggerTime=1, rate=-0.5, volume=5, lifetime=2, enabled=True)]), name)
    # ... and with a band NARROWER than the mistake (75..125 around 100, the mistake is priced at 50), the rule listed before and
    # after the shock: the replacement order is the last word on the price, as the statement says, wherever the rule is listed
    for target in ("M0", "M1"):
        for order in (["PL", "Mi"], ["Mi", "PL"]):
            name = "mistake+narrow_limit:%s:%s_first" % (target, order[0])
            evs = {"PL": {"class": "PriceLimitRule", "targetMarkets": ["M0", "M1"], "triggerChangeRate": 0.25},
                   "Mi": {"class": "OrderMistakeShock", "target": target, "triggerTime": 1, "priceChangeRate": -0.5, "orderVolume": 5, "orderTimeLength": 2}}
            sc[name] = base(evs, [list(order), []], dict(mshocks=[dict(target=target, session=0, triggerTime=1, rate=-0.5, volume=5, lifetime=2, enabled=True)]), name)
    return sc


def multi_scenarios():
    sc = {}
    # shocks whose window lies in (or crosses into / out of) a session without order placement
    for target in ("M0", "M1"):
        for sess, tt, length in ((1, 0, 1), (1, 0, 2), (1, 1, 2), (1, 1, 3), (0, 1, 3)):
            name = "fshock_noplacement:%s-s%d-t%d-L%d" % (target, sess, tt, length)
            markets = [dict(name="M0", drift=DRIFT["M0"]), dict(name="M1", drift=DRIFT["M1"], tick=0.5)]
            ags = [dict(name="A0", menu=MENU, program=[1, 1, 4, 1], markets=["M0", "M1"]),
                   dict(name="A1", menu=MENU, program=[2, 3, 2, 2], markets=["M0", "M1"])]
            ev = {"SH": {"class": "FundamentalPriceShock", "target": target, "triggerTime": tt, "priceChangeRate": 0.5, "shockTimeLength": length}}
            ss = [S(0, 2, True, True, maxNormalOrders=2), S(1, 2, False, False), S(2, 2, True, True, maxNormalOrders=2)]
            ss[sess]["events"] = ["SH"]
            sc[name] = Scenario(name, mkcfg(ss, markets=markets, agents=ags, events=ev),
                                meta=dict(fshocks=[dict(target=target, session=sess, triggerTime=tt, length=length, rate=0.5, enabled=True)],
                                          initial={"M0": 100.0, "M1": 100.0}, drift=DRIFT))
    # two fundamental shocks with overlapping windows (different targets / the same target), both listing orders
    for ta, tb in (("M0", "M1"), ("M1", "M0"), ("M0", "M0")):
        for sa, sb in ((0, 0), (1, 1), (0, 1)):
            name = "two_fshocks:%s@s%d+%s@s%d" % (ta, sa, tb, sb)
            evs = {"Fa": {"class": "FundamentalPriceShock", "target": ta, "triggerTime": 0 if sa != sb else 1, "priceChangeRate": 0.5, "shockTimeLength": 2},
                   "Fb": {"class": "FundamentalPriceShock", "target": tb, "triggerTime": 1, "priceChangeRate": -0.25, "shockTimeLength": 2}}
            se = [[], []]
            se[sa].append("Fa")
            se[sb].append("Fb")
            sc[name] = base(evs, se, dict(fshocks=[
                dict(target=ta, session=sa, triggerTime=0 if sa != sb else 1, length=2, rate=0.5, enabled=True),
                dict(target=tb, session=sb, triggerTime=1, length=2, rate=-0.25, enabled=True)]), name)
    # three sessions, the shock listed under the third (its trigger time counts from the sum of the first two)
    for kind in ("f", "m"):
        for tt in (0, 1):
            name = "%sshock_in_third_session:t%d" % (kind, tt)
            markets = [dict(name="M0", drift=DRIFT["M0"]), dict(name="M1", drift=DRIFT["M1"], tick=0.5)]
            ags = [dict(name="A0", menu=MENU, program=[1, 1, 4, 1, 7, 1, 1], markets=["M0", "M1"]),
                   dict(name="A1", menu=MENU, program=[2, 3, 2, 2, 3, 2, 2], markets=["M0", "M1"])]
            if kind == "f":
                evs = {"SH": {"class": "FundamentalPriceShock", "target": "M0", "triggerTime": tt, "priceChangeRate": 0.5, "shockTimeLength": 2}}
                meta = dict(fshocks=[dict(target="M0", session=2, triggerTime=tt, length=2, rate=0.5, enabled=True)])
            else:
                evs = {"SH": {"class": "OrderMistakeShock", "target": "M0", "triggerTime": tt, "priceChangeRate": -0.5, "orderVolume": 5, "orderTimeLength": 2}}
                meta = dict(mshocks=[dict(target="M0", session=2, triggerTime=tt, rate=-0.5, volume=5, lifetime=2, enabled=True)])
            ss = [S(0, 3, True, True, maxNormalOrders=2), S(1, 1, True, True, maxNormalOrders=2), S(2, 3, True, True, maxNormalOrders=2, events=["SH"])]
            sc[name] = Scenario(name, mkcfg(ss, markets=markets, agents=ags, events=evs), meta=dict(meta, initial={"M0": 100.0, "M1": 100.0}, drift=DRIFT))
    # shocks whose entry extends a template and overrides fields with values that happen to be falsy
    # (enabled: false -- the shock must not act; triggerTime: 0 -- it acts at the session's first step)
    for kind in ("f", "m"):
        for variant in ("enabled_false", "trigger_0"):
            name = "%sshock_extends_template:%s" % (kind, variant)
            if kind == "f":
                tmpl = {"class": "FundamentalPriceShock", "target": "M0", "triggerTime": 2, "priceChangeRate": 0.5, "shockTimeLength": 1, "enabled": True}
            else:
                tmpl = {"class": "OrderMistakeShock", "target": "M0", "triggerTime": 2, "priceChangeRate": -0.5, "orderVolume": 5, "orderTimeLength": 2, "enabled": True}
            leaf = {"extends": "SHT"}
            leaf.update({"enabled": False} if variant == "enabled_false" else {"triggerTime": 0})
            tt, en = (2, False) if variant == "enabled_false" else (0, True)
            if kind == "f":
                meta = dict(fshocks=[dict(target="M0", session=1, triggerTime=tt, length=1, rate=0.5, enabled=en)])
            else:
                meta = dict(mshocks=[dict(target="M0", session=1, triggerTime=tt, rate=-0.5, volume=5, lifetime=2, enabled=en)])
            sc[name] = base({"SHT": tmpl, "SH": leaf}, [[], ["SH"]], meta, name)
    # a shock whose window is empty (shockTimeLength 0): it never acts
    for target in ("M0", "M1"):
        for sess in (0, 1):
            name = "fshock_empty_window:%s-s%d" % (target, sess)
            evs = {"SH": {"class": "FundamentalPriceShock", "target": target, "triggerTime": 1, "priceChangeRate": 0.5, "shockTimeLength": 0}}
            se = [[], []]
            se[sess] = ["SH"]
            sc[name] = base(evs, se, dict(fshocks=[dict(target=target, session=sess, triggerTime=1, length=0, rate=0.5, enabled=True)]), name)
    # the same event entry listed under two sessions: it acts in both, each time counted from that session's start
    for kind in ("f", "m"):
        for target in ("M0", "M1"):
            name = "%sshock_listed_in_both_sessions:%s" % (kind, target)
            if kind == "f":
                evs = {"SH": {"class": "FundamentalPriceShock", "target": target, "triggerTime": 1, "priceChangeRate": 0.5, "shockTimeLength": 1}}
                meta = dict(fshocks=[dict(target=target, session=i, triggerTime=1, length=1, rate=0.5, enabled=True) for i in (0, 1)])
            else:
                evs = {"SH": {"class": "OrderMistakeShock", "target": target, "triggerTime": 1, "priceChangeRate": -0.5, "orderVolume": 5, "orderTimeLength": 2}}
                meta = dict(mshocks=[dict(target=target, session=i, triggerTime=1, rate=-0.5, volume=5, lifetime=2, enabled=True) for i in (0, 1)])
            sc[name] = base(evs, [["SH"], ["SH"]], meta, name)
    # a rule whose hooks are un-timed and bound to ANOTHER market (or to both), listed before / after the shock;
    # the rules' thresholds are too wide to ever act
    for rule, rt in (("TradingHaltRule", ["M1"]), ("TradingHaltRule", ["M0", "M1"]), ("PriceLimitRule", ["M1"])):
        for order in (("R", "SH"), ("SH", "R")):
            for kind in ("f", "m"):
                name = "%sshock+%s:%s:%s-first" % (kind, rule, "+".join(rt), order[0])
                evs = {"R": {"class": rule, "targetMarkets": rt, "triggerChangeRate": 0.9375}}
                if rule == "TradingHaltRule":
                    evs["R"]["haltingTimeLength"] = 1
                if kind == "f":
                    evs["SH"] = {"class": "FundamentalPriceShock", "target": "M0", "triggerTime": 1, "priceChangeRate": 0.5, "shockTimeLength": 2}
                    meta = dict(fshocks=[dict(target="M0", session=1, triggerTime=1, length=2, rate=0.5, enabled=True)])
                else:
                    evs["SH"] = {"class": "OrderMistakeShock", "target": "M0", "triggerTime": 1, "priceChangeRate": -0.5, "orderVolume": 5, "orderTimeLength": 2}
                    meta = dict(mshocks=[dict(target="M0", session=1, triggerTime=1, rate=-0.5, volume=5, lifetime=2, enabled=True)])
                sc[name] = base(evs, [[], list(order)], meta, name)
    return sc


def scenarios(tier):
    sc = f_scenarios()
    sc.update(m_scenarios())
    sc.update(both_scenarios())
    sc.update(multi_scenarios())
    return sc


def on_exc(w):
    return ("C14.run_aborted", "the run aborted with %s: %s" % (type(w.exc).__name__, str(w.exc)[:80]))


def run(tier, seed):
    res = common.Result("C14", tier, seed)
    run_r("C14", tier, seed, f_scenarios(), [acc_C14], 1 if tier == "quick" else 2, on_exc, [], RULE, res=res, label="fundamental_shocks", split=0)
    ms = m_scenarios()
    run_r("C14", tier, seed, ms, [acc_C14], 1 if tier == "quick" else 2, on_exc, [], RULE, res=res, label="order_mistake_shocks", split=0)
    run_r("C14", tier, seed, multi_scenarios(), [acc_C14], 1 if tier == "quick" else 2, on_exc, [], RULE, res=res, label="several_events", split=0)
    deep = {k: v for k, v in ms.items() if "-t1-r-0.5-ttl1-on" in k and not k.endswith("-hft")}
    deep.update(both_scenarios())
    run_r("C14", tier, seed, deep, [acc_C14], 2 if tier == "quick" else 3, on_exc, WIT, RULE, res=res, label="order_mistake_shocks_deeper")
    return res


def replay(payload):
    return replay_r(scenarios("thorough"), [acc_C14], on_exc, payload)
