"""C10: the logger sees every order, cancel, fill and expiry exactly once, in order -- Engine R."""
from ._r import run_r, replay_r
from ..acceptors_r import acc_C10
from ..scenarios_r import base_family

WIT = ["order_records", "cancel_records", "fill_records", "expiry_records", "expiry_at_final_clock_step", "multi_fill_round"]
RULE = ("deviation-bounded enumeration of all executions of the real SequentialRunner around each base scenario (every "
        "permutation handed out by sample(), every rate draw, every menu choice of every scripted agent); the records the logger receives and processes are compared element by element and field by field with the ground-truth event sequence recorded by the probe markets, begin/end records are counted, step records must be processed inside the writing call, and everything written before a session boundary must be processed at that boundary; "
        "distinct = distinct outcome digests")


def scenarios(tier):
    sc = base_family()
    # a user event whose before-session hook cancels a resting order directly at the market: the record it causes is
    # pending when the session-begin record is written
    from ..explore_r import Scenario, S, mkcfg
    from ..scenarios_r import agents
    for nm, sess in (("Q_event_cancels_at_session_open", [S(0, 2, True, False, maxNormalOrders=2, events=["E"]), S(1, 2, True, True, maxNormalOrders=2), S(2, 1, True, True, maxNormalOrders=2)]),
                     ("Q_event_cancels_at_session_open_exec", [S(0, 2, True, True, maxNormalOrders=1, events=["E"]), S(1, 2, True, True, maxNormalOrders=2)])):
        sc[nm] = Scenario(nm, mkcfg(sess, agents=agents(2, 0), events={"E": {"class": "ProbeEvent", "hooks": [["session", True, None, None]], "act_before_session": True}}))
    return sc


def on_exc(w):
    return ("C10.run_aborted", "the run aborted with %s: %s" % (type(w.exc).__name__, str(w.exc)[:80]))


def m_factory():
    from ..monitors_m import C10MMon
    return [C10MMon()]


M_WIT = ["order_record", "cancel_record", "fill_record", "multi_fill_records", "expiry_record", "expiry_record_sell_side"]


def run(tier, seed):
    res = run_r("C10", tier, seed, scenarios(tier), [acc_C10], 2 if tier == "quick" else 3, on_exc, WIT, RULE)
    from ..families import cross_family
    run_r("C10", tier, seed, cross_family(tier, with_no_logger=False), [acc_C10], 1, on_exc, [], RULE, res=res, label="cross_family", split=0)
    # market-level half on Engine M: what the logger receives during each single market operation
    from ._m import ALPH, SEEDS_Q
    from ..explore_m import run_m_check
    d0, ds = (3, 2) if tier == "quick" else (4, 3)
    plan = [("empty", m, d0, "quick") for m in ("cont", "free")] + [(s, "free", ds, "quick") for s in SEEDS_Q if s != "halftick"]
    run_m_check(res, m_factory, plan, ALPH, seed, required_witness=WIT + M_WIT)
    return res


def replay(payload):
    if payload.get("engine") == "M":
        from ._m import replay_generic
        return replay_generic(payload, m_factory)
    from ..families import cross_family
    sc = scenarios("thorough")
    sc.update(cross_family("thorough", with_no_logger=False))
    return replay_r(sc, [acc_C10], on_exc, payload)
