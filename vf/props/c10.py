"""C10: the logger sees every order, cancel, fill and expiry exactly once, in order -- Engine R."""
from ._r import run_r, replay_r
from ..acceptors_r import acc_C10
from ..scenarios_r import base_family

WIT = ["order_records", "cancel_records", "fill_records", "expiry_records", "expiry_at_final_clock_step", "multi_fill_round"]
RULE = ("deviation-bounded enumeration of all executions of the real SequentialRunner around each base scenario (every "
        "permutation handed out by sample(), every rate draw, every menu choice of every scripted agent); the records the logger receives and processes are compared element by element and field by field with the ground-truth event sequence recorded by the probe markets, begin/end records are counted, step records must be processed inside the writing call, and everything written before a session boundary must be processed at that boundary; "
        "distinct = distinct outcome digests")


def scenarios(tier):
    sc = base_family()
    # a user event whose before-session hook cancels a resting order directly at the market: the record it causes is
    # pending when the session-begin record is written
    from ..explore_r import Scenario, S, mkcfg
    from ..scenarios_r import agents
    for nm, sess in (("Q_event_cancels_at_session_open", [S(0, 2, True, False, maxNormalOrders=2, events=["E"]), S(1, 2, True, True, maxNormalOrders=2), S(2, 1, True, True, maxNormalOrders=2)]),
                     ("Q_event_cancels_at_session_open_exec", [S(0, 2, True, True, maxNormalOrders=1, events=["E"]), S(1, 2, True, True, maxNormalOrders=2)])):
        sc[nm] = Scenario(nm, mkcfg(sess, agents=agents(2, 0), events={"E": {"class": "ProbeEvent", "hooks": [["session", True, None, None]], "act_before_session": True}}))
    return sc


def on_exc(w):
    return ("C10.run_aborted", "the run aborted with %s: %s" % (type(w.exc).__name__, str(w.exc)[:80]))


def m_factory():
    from ..monitors_m import C10MMon
    return [C10MMon()]


M_WIT = ["order_record", "cancel_record", "fill_record", "multi_fill_records", "expiry_record", "expiry_record_sell_side"]


# ------------------------------------------------------------------------------------------------
# the logger's own write / flush path: every number of pending records


def flush_cases(tier):
    top = 2600 if tier == "quick" else 10400
    step = 50
    for lo in range(0, top, step):
        yield (lo, min(lo + step, top))


def flush_fn(case, wit):
    """for every k in the range: k records written to a logger, then one flush: the logger's process() receives exactly
    those k records, once each, in the order written (however it chooses to batch them), and nothing stays pending"""
    from ..common import Violation
    from pams.logs.base import Logger, OrderLog
    from pams.order import LIMIT_ORDER
    lo, hi = case

    class Rec(Logger):
        def __init__(self):
            super().__init__()
            self.seen = []

        def process(self, logs):
            self.seen.extend(logs)
    pool = [OrderLog(order_id=i, market_id=0, time=0, agent_id=0, is_buy=True, kind=LIMIT_ORDER, volume=1, price=100.0, ttl=None) for i in range(hi)]
    for k in range(lo, hi):
        lg = Rec()
        for l in pool[:k]:
            lg.write(l)
        lg._process()
        if [id(x) for x in lg.seen] != [id(x) for x in pool[:k]]:
            raise Violation("C10.flush_count", "after writing k records and one flush the logger has not processed exactly those k records once each in order",
                            "k=%d: processed %d records%s" % (k, len(lg.seen), " (some twice)" if len(set(map(id, lg.seen))) < len(lg.seen) else ""))
        lg._process()
        if len(lg.seen) != k:
            raise Violation("C10.flush_count", "a second flush with nothing written in between delivered records again", "k=%d" % k)
        wit.inc("flush_sizes")
    return (lo // 1000,)


def run(tier, seed):
    res = run_r("C10", tier, seed, scenarios(tier), [acc_C10], 2 if tier == "quick" else 3, on_exc, WIT, RULE)
    from ..enum_f import run_grid
    ev0, dn0 = res.coverage["evaluations"], res.coverage["distinct_nontrivial"]
    run_grid(res, "pending_records_at_a_flush", list(flush_cases(tier)), flush_fn, seed)
    res.coverage["evaluations"], res.coverage["distinct_nontrivial"] = ev0 + res.coverage["witness_classes"].get("flush_sizes", 0), dn0
    res.require_witness(["flush_sizes"])
    from ..families import cross_family
    run_r("C10", tier, seed, cross_family(tier, with_no_logger=False), [acc_C10], 1, on_exc, [], RULE, res=res, label="cross_family", split=0)
    # market-level half on Engine M: what the logger receives during each single market operation
    from ._m import ALPH, SEEDS_Q
    from ..explore_m import run_m_check
    d0, ds = (3, 2) if tier == "quick" else (4, 3)
    plan = [("empty", m, d0, "quick") for m in ("cont", "free")] + [(s, "free", ds, "quick") for s in SEEDS_Q if s != "halftick"]
    run_m_check(res, m_factory, plan, ALPH, seed, required_witness=WIT + M_WIT)
    return res


def replay(payload):
    if payload.get("engine") == "F":
        from ..common import Violation, Counter
        try:
            flush_fn(tuple(payload["case"]), Counter())
        except Violation as v:
            print("  ==> VIOLATION %s: %s" % (v.monitor, v.msg))
            print("VIOLATION property=C10 replay=(this file)")
            return 1
        print("replay: no violation on this tree")
        return 0
    if payload.get("engine") == "M":
        from ._m import replay_generic
        return replay_generic(payload, m_factory)
    from ..families import cross_family
    sc = scenarios("thorough")
    sc.update(cross_family("thorough", with_no_logger=False))
    return replay_r(sc, [acc_C10], on_exc, payload)
