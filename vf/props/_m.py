"""Common plans / alphabets for the Engine-M based checks."""
from .. import common
import numpy as _np

from ..explore_m import alphabet, run_m_check, replay_history, SEED_BOOKS, SEED_KW

ALPH = {
    # quick alphabet of DESIGN.md 2.1 (45 ops)
    "quick": alphabet(),
    # no ttl, no dead-order cancels: deeper
    "lean": alphabet(ttls=(None,), mttls=(None,), dead=()),
    # one volume, no ttl
    "reduced": alphabet(vols=(1,), mvols=(1,), ttls=(None,), mttls=(None,), dead=(), cancels=2),
    # richer: off-grid prices, volume 3, ttl 2
    "rich": alphabet(prices=(99, 99.5, 100, 100.25, 101), vols=(1, 2, 3), ttls=(None, 1, 2), mvols=(1, 2, 3)),
    "half": alphabet(prices=(99.5, 99.75, 100, 100.5), vols=(1, 2), ttls=(None, 1)),
    # prices at and below one tick: 0.4 is accepted at 0.0 for a buy and at 1.0 for a sell
    # extreme values: a price of exactly zero, very large prices one tick apart, very large volumes
    "extreme": alphabet(prices=(-1.0, 0.0, 1.0, 1e9, 1e9 + 1), vols=(1, 10 ** 6), ttls=(None,), mvols=(1, 10 ** 6), mttls=(None,), dead=(), cancels=2),
    # tick 0.1: mid-tick prices that both sides round onto the same level (0.25/0.35 -> 0.3, 1.15/1.25 -> 1.2), and the level itself
    "dec01": alphabet(prices=(0.25, 0.3, 0.35, 1.15, 1.25), vols=(1, 2), ttls=(None,), mttls=(None,), dead=(), cancels=2),
    # tick 1e-5 at the price level of the shipped samples: adjacent levels and a mid-tick price
    "fine": alphabet(prices=(299.99999, 300.0, 300.000005, 300.00001), vols=(1, 2), ttls=(None,), mttls=(None,), dead=(), cancels=2),
    "quick_xc": alphabet() + [("XC",)],
    "reduced_xc": alphabet(vols=(1,), mvols=(1,), ttls=(None,), mttls=(None,), dead=(), cancels=2) + [("XC",)],
    # tick 0.25 / 2.5: grid points whose decimal expansion ends in 5 (100.75, 107.5) and off-grid prices around them
    "quarter": alphabet(prices=(100.2, 100.22, 100.7, 100.76, 100.8), vols=(1, 2), ttls=(None,), mttls=(None,), dead=(), cancels=2),
    "t2_5": alphabet(prices=(105.0, 106.2, 107.5, 107.6, 108.0), vols=(1, 2), ttls=(None,), mttls=(None,), dead=(), cancels=2),
    # volumes that are numpy integers (what an agent drawing its volumes with numpy submits)
    "npvol": alphabet(vols=(_np.int64(1), _np.int64(3)), mvols=(_np.int64(2),), ttls=(None,), mttls=(None,), dead=(), cancels=2),
    # negative prices (accepted by pams with a warning), on and off the grid
    "negative": alphabet(prices=(-3.0, -2.5, -2.0, -0.4, 0.0), vols=(1, 2), ttls=(None,), mttls=(None,), dead=(), cancels=2),
    "low": alphabet(prices=(0.4, 1, 2), vols=(1, 2), ttls=(None,), mttls=(None,), dead=(), cancels=2),
}
SEEDS_Q = ["two_sided_no_trade", "quoted_while_off", "deep", "ladder_buy", "ladder_sell", "partial", "crossed_off", "crossed_tie", "crossed_flip", "crossed_flip_mirror", "mo_one", "mo_both",
           "mo_both_eq", "mo_both_ttl_behind", "expiring", "same_expiry", "mixed_ttl", "multi_fill", "chunk4", "halftick", "step99", "shares1"]


KEY_SEEDS = ["two_sided_no_trade", "quoted_while_off", "ladder_buy", "ladder_sell", "multi_fill", "mo_both", "expiring", "same_expiry", "mixed_ttl", "crossed_tie"]


def plan(tier, d0=None, dseed=None):
    p = []
    if tier == "quick":
        d0 = d0 or 4
        dseed = dseed or 2
        for mode in ("cont", "free"):
            p.append(("empty", mode, d0, "quick"))
        for s in SEEDS_Q:
            for mode in ("cont", "free"):
                p.append((s, mode, dseed, "half" if s == "halftick" else "quick"))
        for s in KEY_SEEDS:
            p.append((s, "free", dseed + 1, "quick"))
        p.append(("mo_both_ttl_behind", "cont", dseed + 1, "quick"))
        for mode in ("cont", "free"):
            p.append(("index", mode, dseed, "quick_xc"))
            p.append(("index_component_stopped", mode, dseed, "quick_xc"))
            p.append(("index", mode, dseed + 1, "reduced_xc"))
            p.append(("empty", mode, d0, "low"))
            p.append(("empty", mode, d0 - 1, "rich"))
            p.append(("empty", mode, d0 - 1, "extreme"))
            p.append(("empty", mode, d0 - 1, "negative"))
            p.append(("empty", mode, d0 - 1, "npvol"))
            for shp in ("copied_orders", "copied_odd_orders", "npside_orders", "intside_orders"):
                p.append((shp, mode, d0 - 1, "quick"))
            p.append(("tick01", mode, d0 - 1, "dec01"))
            p.append(("tick1e5", mode, d0 - 1, "fine"))
            p.append(("quartertick", mode, d0 - 1, "quarter"))
            p.append(("tick2_5", mode, d0 - 1, "t2_5"))
    else:
        d0 = d0 or 5
        dseed = dseed or 3
        for mode in ("cont", "free"):
            p.append(("empty", mode, d0, "quick"))
            p.append(("empty", mode, d0 + 1, "reduced"))
            p.append(("empty", mode, d0 - 2, "rich"))
            p.append(("empty", mode, d0, "low"))
            p.append(("empty", mode, d0 - 1, "extreme"))
            p.append(("empty", mode, d0 - 1, "negative"))
            p.append(("empty", mode, d0 - 1, "npvol"))
            for shp in ("copied_orders", "copied_odd_orders", "npside_orders", "intside_orders"):
                p.append((shp, mode, d0 - 1, "quick"))
            p.append(("tick01", mode, d0 - 1, "dec01"))
            p.append(("tick1e5", mode, d0 - 1, "fine"))
            p.append(("quartertick", mode, d0 - 1, "quarter"))
            p.append(("tick2_5", mode, d0 - 1, "t2_5"))
        for mode in ("cont", "free"):
            p.append(("index", mode, dseed, "quick_xc"))
            p.append(("index_component_stopped", mode, dseed, "quick_xc"))
            p.append(("index", mode, dseed + 1, "reduced_xc"))
        for s in SEEDS_Q:
            for mode in ("cont", "free"):
                p.append((s, mode, dseed, "half" if s == "halftick" else "quick"))
                if s != "halftick":
                    p.append((s, mode, dseed - 1, "rich"))
        for s in KEY_SEEDS:
            p.append((s, "free", dseed + 1, "quick"))
        p.append(("mo_both_ttl_behind", "cont", dseed + 1, "quick"))
    return p


def run_generic(pid, tier, seed, mon_factory, required_witness, rule, assumptions=(), d0=None, dseed=None,
                extra_alph=None, extra_plan=(), heap=True, heap_ns=None, heap_variants=("A", "B", "C", "D"), layouts=False):
    res = common.Result(pid, tier, seed)
    alph = dict(ALPH)
    if extra_alph:
        alph.update(extra_alph)
    pl = plan(tier, d0, dseed) + list(extra_plan)
    run_m_check(res, mon_factory, pl, alph, seed, xcheck_depth=(2 if tier == "quick" else 3),
                required_witness=required_witness)
    cov = res.coverage
    cov["exhaustive"] = True
    cov["rule"] = rule
    cov["evaluations"] = cov["transitions"]
    cov["distinct_nontrivial"] = cov["states"]
    cov["bounds"] = dict(plan=[list(x) for x in pl], alphabets={k: len(v) for k, v in alph.items()},
                         seed_books=sorted(set(x[0] for x in pl)))
    if heap:
        from .. import heap_stress
        heap_stress.run(res, mon_factory, tier, seed, ns=heap_ns, variants=heap_variants)
        if layouts:
            heap_stress.run_layouts(res, mon_factory, tier, seed)
            heap_stress.run_ties(res, mon_factory, tier, seed)
    res.assumptions = list(assumptions) + [
        "operations are drawn from the stated finite alphabets; histories longer than the stated depth are not explored",
        "the market is driven through the same private interface the runner uses (_add_order, _cancel_order, _execution, _update_time, _is_running)",
    ]
    return res


def replay_generic(payload, mon_factory):
    if payload.get("engine") == "F" and payload.get("grid") in ("deep_one_sided_books", "heap_layouts", "heap_layouts_with_expiries", "books_with_ties"):
        from .. import heap_stress
        v = heap_stress.replay(payload, mon_factory)
        if v is None:
            print("replay: no violation on this tree")
            return 0
        print("VIOLATION property=%s replay=(this file)" % payload["property_id"])
        return 1
    v = replay_history(mon_factory, payload["mode"], [tuple(o) for o in payload["history"]], payload["seed_book"])
    if v is None:
        print("replay: no violation on this tree")
        return 0
    print("VIOLATION property=%s replay=(this file)" % payload["property_id"])
    return 1
