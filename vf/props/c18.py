"""C18: configuration expansion -- inheritance, counts/ranges, names, random values, aliases -- Engine F."""
import copy
import inspect
import itertools
import math
import random

from .. import common
from ..common import Violation
from ..enum_f import run_grid, StubRandom, with_watchdog, Timeout

common.import_pams()
import pams  # noqa: E402
import pams.agents  # noqa: E402
import pams.events  # noqa: E402
import pams.logs  # noqa: E402
import pams.utils  # noqa: E402
from pams.agents import Agent, HighFrequencyAgent  # noqa: E402
from pams.runners.sequential import SequentialRunner  # noqa: E402
from pams.session import Session  # noqa: E402
from pams.utils.class_finder import find_class  # noqa: E402
from pams.utils.json_extends import json_extends  # noqa: E402
from pams.utils.json_random import JsonRandom  # noqa: E402

RULE = ("complete enumeration of (1) all inheritance graphs on n named entries with every placement of ordinary and excluded keys, "
        "(2) all count / inclusive-range declarations for one or two market and agent groups, (3) all subsets of market groups "
        "an agent can list, (4) all distribution forms x PRNG answers, (5) all public class names + user classes + clashes, "
        "(6) the legacy session keys over the parameter grid, (7) markets, agents and events taking their class and parameters from an ancestor "
        "one or two levels up, run through the runner; each compared with an independently written reference; "
        "distinct = distinct outcome classes")
WIT = ["inherit_ok", "inherit_missing_parent", "inherit_cycle", "inherit_excluded_key_skipped", "inherit_diamond_or_chain",
       "range_len1", "range_len2", "range_len3plus", "count_group", "two_groups", "rejected_declaration",
       "inherited_range_ignored", "access_subset", "uniform", "const", "normal", "expon", "malformed_spec_rejected",
       "builtin_class_resolved", "user_class_resolved", "class_error_reported", "legacy_key_equal", "legacy_both_rejected", "class_resolution_sequences", "inherited_count", "entity_through_extends", "agent_int_parameter", "agent_endowment", "related_namesakes_reported"]

# ---------------------------------------------------------------------------------------------- 1


def ref_extends(whole, start, target, excl):
    res = {k: v for k, v in target.items() if k != "extends"}
    hist = [start]
    cur = target
    while "extends" in cur:
        par = cur["extends"]
        if par not in whole:
            raise ValueError("missing")
        if par in hist:
            raise ValueError("cycle")
        hist.append(par)
        cur = whole[par]
        for k, v in cur.items():
            if k != "extends" and k not in excl and k not in res:
                res[k] = v
    return res


def inherit_cases(n, keys):
    names = ["A", "B", "C", "D"][:n]
    for ext in itertools.product([None] + names + ["Z"], repeat=n):
        for present in itertools.product([0, 1], repeat=n * len(keys)):
            for tgt in names:
                yield (tuple(names), ext, present, tuple(keys), tgt)
                # the same graph with values that are falsy (0, "", []) for most entries: a value is a value
                yield (tuple(names), ext, present, tuple(keys), tgt, "falsy")


def inherit_fn(case, wit):
    falsy = len(case) == 6
    names, ext, present, keys, tgt = case[:5]
    FALSY = {"A": 0, "B": "", "C": [], "D": "D"}
    whole = {}
    for i, nm in enumerate(names):
        d = {}
        if ext[i] is not None:
            d["extends"] = ext[i]
        for j, k in enumerate(keys):
            if present[i * len(keys) + j]:
                d[k] = FALSY[nm] if falsy else "%s.%s" % (nm, k)
        whole[nm] = d
    excl = [k for k in keys if k.startswith("x")]
    w0 = copy.deepcopy(whole)
    try:
        exp = ("ok", ref_extends(whole, tgt, whole[tgt], excl))
    except ValueError as e:
        exp = ("err", str(e))
    try:
        got = ("ok", with_watchdog(lambda: json_extends(whole, tgt, whole[tgt], excl), 2.0))
    except ValueError:
        got = ("err",)
    except Timeout:
        raise Violation("C18.inherit_loops", "settings inheritance does not terminate on a cyclic 'extends' graph",
                        "graph %s target %s" % (dict(zip(names, ext)), tgt))
    if exp[0] == "err":
        if got[0] != "err":
            raise Violation("C18.inherit_error", "a %s in the 'extends' chain was not reported as an error" % (
                "missing parent" if exp[1] == "missing" else "cycle"), "graph %s target %s" % (dict(zip(names, ext)), tgt))
        wit.inc("inherit_missing_parent" if exp[1] == "missing" else "inherit_cycle")
        cls = ("err", exp[1])
    else:
        if got[0] != "ok":
            raise Violation("C18.inherit_spurious_error", "a valid 'extends' chain was rejected", "graph %s target %s" % (dict(zip(names, ext)), tgt))
        if got[1] != exp[1]:
            raise Violation("C18.inherit_value", "inheritance does not yield own keys, then the nearest ancestor's value, skipping non-inheritable keys",
                            "graph %s keys %s target %s: got %s expected %s" % (dict(zip(names, ext)), whole, tgt, got[1], exp[1]))
        wit.inc("inherit_ok")
        depth = 0
        cur = tgt
        while ext[names.index(cur)] is not None:
            cur = ext[names.index(cur)]
            depth += 1
            if any(k in whole[cur] and k in excl for k in keys):
                wit.inc("inherit_excluded_key_skipped")
        if depth >= 2:
            wit.inc("inherit_diamond_or_chain")
        cls = ("ok", depth, tuple(sorted(exp[1])), falsy)
    if whole != w0:
        raise Violation("C18.inherit_mutates", "resolving inheritance modified its input settings", "target %s" % tgt)
    return cls

# ---------------------------------------------------------------------------------------------- 2


def grp(kind, count, fr, to, prefix, extends=None):
    d = {"class": "Market", "tickSize": 1.0, "marketPrice": 100.0} if kind == "m" else \
        {"class": "TestAgent", "markets": ["G0"], "cashAmount": 1, "assetVolume": 1}
    if extends:
        d = {"extends": extends}
    if count is not None:
        d["numMarkets" if kind == "m" else "numAgents"] = count
    if fr is not None:
        d["from"] = fr
    if to is not None:
        d["to"] = to
    if prefix:
        d["prefix"] = prefix
    return d


def range_cases():
    specs = [(c, None, None) for c in (None, 1, 2, 3)] + [(None, f, t) for f in range(4) for t in range(f, 4)] + [(None, 5, 6), (None, 7, 7)]
    bad = [(2, 0, 1), (None, 1, None), (None, None, 2), (1, None, 3)]
    for kind in ("m", "a"):
        for s0 in specs:
            for s1 in specs + [None]:
                for pf in (None, "P"):
                    yield (kind, s0, s1, pf, False)
        for b in bad:
            yield (kind, b, None, None, False)
        # a group that inherits from a group declaring a range: the range must not be inherited
        for s0 in [(None, 0, 1), (None, 1, 3), (None, 2, 2)]:
            yield (kind, s0, (None, None, None), None, True)
        # a group that inherits from an (already expanded) group declaring a count: the count IS inherited
        # (without a prefix: an inherited prefix would legitimately produce duplicate names)
        for s0 in [(2, None, None), (3, None, None)]:
            yield (kind, s0, (None, None, None), None, True)


def cnt(sp):
    return (sp[0] if sp[0] is not None else 1) if sp[1] is None else sp[2] - sp[1] + 1


def range_fn(case, wit):
    kind, s0, s1, pf, inherit = case
    cfg = {"simulation": {"markets": ["G0"] + (["G1"] if kind == "m" and s1 else []),
                          "agents": [] if kind == "m" else ["A0"] + (["A1"] if s1 else []), "sessions": []}}
    if kind == "m":
        cfg["G0"] = grp("m", *s0, pf)
        if s1:
            cfg["G1"] = grp("m", *s1, None, extends="G0" if inherit else None)
    else:
        cfg["G0"] = grp("m", None, None, None, None)
        cfg["A0"] = grp("a", *s0, pf)
        if s1:
            cfg["A1"] = grp("a", *s1, None, extends="A0" if inherit else None)
    invalid = (s0[0] is not None and (s0[1] is not None or s0[2] is not None)) or ((s0[1] is None) != (s0[2] is None))
    given = copy.deepcopy(cfg)
    r = SequentialRunner(given, random.Random(0))
    try:
        r._setup()
    except Exception as e:  # noqa
        if invalid:
            wit.inc("rejected_declaration")
            return ("rejected",)
        raise Violation("C18.range_setup", "a valid count / inclusive id range declaration was rejected at set-up",
                        "%s groups %s %s prefix %s: %r" % ("market" if kind == "m" else "agent", s0, s1, pf, e))
    if invalid:
        raise Violation("C18.range_accepts_invalid", "a contradictory count/range declaration was accepted", "%s %s" % (kind, s0))
    ents = r.simulator.markets if kind == "m" else r.simulator.agents
    want = cnt(s0) + (cnt(s1) if s1 else 0)
    if given != cfg:
        raise Violation("C18.settings_mutated", "expanding the configuration modified the caller's settings", "%s groups %s %s" % (kind, s0, s1))
    if inherit:
        # the child declares nothing itself: a range is not inherited (one entity), a count is
        want = cnt(s0) + (1 if s0[1] is not None else cnt(s0))
        wit.inc("inherited_count" if s0[1] is None else "inherited_range")
    if len(ents) != want:
        raise Violation("C18.range_count", "a group did not create exactly the declared number of entities",
                        "%s groups %s %s: %d entities, expected %d" % (kind, s0, s1, len(ents), want))
    ids = [e.market_id if kind == "m" else e.agent_id for e in ents]
    if ids != list(range(len(ents))):
        raise Violation("C18.range_ids", "entity ids are not unique and consecutive across groups", "%s" % ids)
    names = [e.name for e in ents]
    if len(set(names)) != len(names):
        raise Violation("C18.range_names", "entity names are not unique", "%s" % names)
    for sp in (s0, s1):
        if sp and sp[1] is not None:
            wit.inc({1: "range_len1", 2: "range_len2"}.get(cnt(sp), "range_len3plus"))
        elif sp:
            wit.inc("count_group")
    if s1:
        wit.inc("two_groups")
    if inherit:
        wit.inc("inherited_range_ignored")
    return (kind, cnt(s0), cnt(s1) if s1 else 0, bool(pf), inherit)

# ---------------------------------------------------------------------------------------------- 3


def access_cases():
    groups = ["G0", "G1", "G2"]
    for r_ in range(0, 4):
        for sub in itertools.permutations(groups, r_):
            yield sub
    # the same for every built-in agent class (a market maker's target market may lie outside what the group lists)
    for cls in ("FCNAgent", "MarketShareFCNAgent", "MarketMakerAgent", "ArbitrageAgent"):
        for sub in ((), ("G0",), ("G2", "G0"), ("G1",), ("G0", "G1", "G2")):
            yield sub + ("class:" + cls,)


def access_fn(case, wit):
    cls = "TestAgent"
    if case and case[-1].startswith("class:"):
        cls, case = case[-1][6:], case[:-1]
    extra = {"TestAgent": {},
             "FCNAgent": {"fundamentalWeight": 1.0, "chartWeight": 0.0, "noiseWeight": 0.0, "noiseScale": 0.001, "timeWindowSize": 3, "orderMargin": 0.0},
             "MarketMakerAgent": {"targetMarket": "G1", "netInterestSpread": 0.02},
             "ArbitrageAgent": {"orderVolume": 1, "orderThresholdPrice": 1.0}}
    extra["MarketShareFCNAgent"] = extra["FCNAgent"]
    cfg = {"simulation": {"markets": ["G0", "G1", "G2"], "agents": ["A", "Z"] if case else ["A"], "sessions": []},
           "Z": {"class": "TestAgent", "markets": [case[0]] if case else [], "cashAmount": 1, "assetVolume": 1, "numAgents": 1},
           "G0": {"class": "Market", "tickSize": 1.0, "marketPrice": 100.0, "numMarkets": 2},
           "G1": {"class": "Market", "tickSize": 1.0, "marketPrice": 100.0},
           "G2": {"class": "Market", "tickSize": 1.0, "marketPrice": 100.0, "from": 0, "to": 0},
           "A": dict({"class": cls, "markets": list(case), "cashAmount": 1, "assetVolume": 1, "numAgents": 2}, **extra[cls])}
    r = SequentialRunner(cfg, random.Random(0))
    r._setup()
    sim = r.simulator
    # market ids per group follow from the declaration order (G0: two markets, G1: one, G2: range 0..0), not
    # from the simulator's own group registry
    ids_of = {"G0": {0, 1}, "G1": {2}, "G2": {3}}
    if {m.market_id for m in sim.markets} != {0, 1, 2, 3}:
        raise Violation("C18.range_ids", "entity ids are not unique and consecutive across groups", "%s" % [m.market_id for m in sim.markets])
    want = set()
    for g in case:
        want |= ids_of[g]
    want_z = ids_of[case[0]] if case else set()
    for a in sim.agents:
        got = set(m.market_id for m in sim.markets if a.is_market_accessible(m.market_id))
        if a.name.startswith("Z"):
            if got != want_z:
                raise Violation("C18.access", "an agent can access markets other than exactly those of the groups it lists",
                                "a later agent group listing only %s (after a group listing %s): accessible %s expected %s" % (case[0], list(case), sorted(got), sorted(want_z)))
            continue
        if got != want:
            raise Violation("C18.access", "an agent can access markets other than exactly those of the groups it lists",
                            "lists %s: accessible %s expected %s" % (list(case), sorted(got), sorted(want)))
    wit.inc("access_subset")
    return (cls,) + tuple(sorted(want))

# ---------------------------------------------------------------------------------------------- 4


U = [2.0 ** -53, 0.25, 0.5, 1 - 2.0 ** -53]
G = [-3.0, 0.0, 3.0]
AB = [(10, 20), (0, 1), (-4, 4), (0.5, 0.75), (100, 200), (3, 3)]
BADSPECS = [[1], [1, 2, 3], {"const": [1], "uniform": [1, 2]}, {"foo": [1]}, {"const": 1}, {"const": [1, 2]},
            {"uniform": [1]}, {"normal": [1]}, {"expon": [1, 2]}, {"uniform": 3}, {}, {"normal": 2}, {"expon": 1}, []]


def random_cases():
    for u in U:
        for g in G:
            for a, b in AB:
                yield ("uniform_list", u, g, a, b)
                yield ("uniform", u, g, a, b)
            for c in (7, -2.5, 0):
                yield ("const", u, g, c, None)
                yield ("plain", u, g, c, None)
            for mu, sg in ((1.0, 2.0), (0.0, 1.0), (100.0, 0.0)):
                yield ("normal", u, g, mu, sg)
            for lam in (3.0, 0.5):
                yield ("expon", u, g, lam, None)
    for i in range(len(BADSPECS)):
        yield ("bad", 0.5, 0.0, i, None)
    # integer-valued agent parameters given as a distribution: the value the agent ends up with lies in the support
    # (u = 1 - 2^-53 is left out here: a + (b - a) u then rounds to b itself in floating point, as Python documents for uniform)
    for u in [2.0 ** -53, 0.25, 0.5, 0.76, 0.999]:
        for ci in range(len(ENDOWED)):
            for ei in range(len(ENDOWMENTS)):
                for shares in (None, 1, 30, 100000):
                    yield ("agent_endowment", u, ci, ei, shares)
    for u in [2.0 ** -53, 0.25, 0.26, 0.5, 0.74, 0.76, 0.999]:
        for which in range(len(INT_PARAMS)):
            for a, b in ((2, 4), (1, 6), (3, 4)):
                yield ("agent_int_param", u, which, a, b)


ENDOWED = ["Agent_", "FCNAgent", "MarketShareFCNAgent", "MarketMakerAgent", "ArbitrageAgent", "TestAgent", "HighFrequencyAgent_"]
ENDOWMENTS = [(50, lambda u: 50.0), ({"const": [50]}, lambda u: 50.0), ([40, 60], lambda u: 40 + 20 * u), ({"uniform": [40, 60]}, lambda u: 40 + 20 * u),
              (0, lambda u: 0.0), ({"uniform": [1000, 3000]}, lambda u: 1000 + 2000 * u)]


def _real_sim(shares):
    """a real Simulator with two real markets "m" (id 0) and "m2" (id 1), set up and registered the way the runner does"""
    import random as _r
    from pams.market import Market
    from pams.simulator import Simulator
    sim = Simulator(prng=_r.Random(0))
    for i, nm in enumerate(("m", "m2")):
        m = Market(i, _r.Random(i), sim, nm)
        st = {"tickSize": 1.0, "marketPrice": 100.0}
        if shares is not None:
            st["outstandingShares"] = shares
        m.setup(st)
        sim._add_market(m)
    return sim


INT_PARAMS = [("MarketMakerAgent", "orderTimeLength", "order_time_length"), ("FCNAgent", "timeWindowSize", "time_window_size"),
              ("FCNAgent", "meanReversionTime", "mean_reversion_time"), ("MarketShareFCNAgent", "timeWindowSize", "time_window_size")]


def random_fn(case, wit):
    kind, u, g, a, b = case
    if kind == "agent_int_param":
        import pams.agents
        cname, key, attr = INT_PARAMS[g]
        st = {"cashAmount": 100, "assetVolume": 1}
        if "FCN" in cname:
            st.update({"fundamentalWeight": 1.0, "chartWeight": 0.0, "noiseWeight": 0.0, "noiseScale": 0.001, "timeWindowSize": 5, "orderMargin": 0.0})
        else:
            st.update({"targetMarket": "m", "netInterestSpread": 0.02})
        for form in ([a, b], {"uniform": [a, b]}):
            st[key] = form
            sim = _real_sim(None)
            ag = getattr(pams.agents, cname)(0, StubRandom(u=u, g=0.0), sim, "a")
            ag.setup(dict(st), [0])
            v = getattr(ag, attr)
            if not (isinstance(v, int) and a <= v < b):
                raise Violation("C18.int_parameter_support", "an integer-valued agent parameter given as a distribution ended up outside the distribution's support [a, b)",
                                "%s.%s = %r with u=%r -> %r" % (cname, key, form, u, v))
        wit.inc("agent_int_parameter")
        return (kind, g)
    if kind == "agent_endowment":
        # what an agent of every class ends up holding is the value its endowment specification yields for the PRNG's
        # answer -- whatever the markets it may trade look like (how many shares they have issued, say)
        import pams.agents
        cname = ENDOWED[g]
        spec, want = ENDOWMENTS[a]
        want = want(u)
        st = {"cashAmount": spec, "assetVolume": spec}
        if "FCN" in cname:
            st.update({"fundamentalWeight": 1.0, "chartWeight": 0.0, "noiseWeight": 0.0, "noiseScale": 0.001, "timeWindowSize": 5, "orderMargin": 0.0})
        elif cname == "MarketMakerAgent":
            st.update({"targetMarket": "m", "netInterestSpread": 0.02})
        elif cname == "ArbitrageAgent":
            st.update({"orderVolume": 1, "orderThresholdPrice": 1.0})
        sim = _real_sim(b)
        cls = {"Agent_": UserX, "HighFrequencyAgent_": _UserHF}.get(cname) or getattr(pams.agents, cname)
        ag = cls(0, StubRandom(u=u, g=0.0), sim, "a")
        ag.setup(dict(st), [0, 1])
        got = (ag.get_cash_amount(), ag.get_asset_volume(0), ag.get_asset_volume(1))
        if not (abs(got[0] - want) <= 1e-9 * max(1.0, abs(want)) and got[1] == int(want) and got[2] == int(want)):
            raise Violation("C18.endowment", "an agent's initial cash / holdings are not the values its endowment specification yields",
                            "%s with cashAmount = assetVolume = %r, PRNG answer %r, markets with outstandingShares %r: cash %r holdings %r / %r, expected %r / %r" % (
                                cname, spec, u, b, got[0], got[1], got[2], want, int(want)))
        wit.inc("agent_endowment")
        return (kind, g, a, b)
    jr = JsonRandom(StubRandom(u=u, g=g))
    if kind in ("uniform", "uniform_list"):
        x = jr.random([a, b] if kind == "uniform_list" else {"uniform": [a, b]})
        exact = a + u * (b - a)
        if not (a <= x <= b) or (a < b and not x < b and exact < b) or abs(x - exact) > 1e-12 * max(1.0, abs(b)):
            raise Violation("C18.uniform", "a uniform value is outside [a, b) or not a + u (b - a)", "[%s,%s] u=%r -> %r" % (a, b, u, x))
        wit.inc("uniform")
    elif kind == "const":
        x = jr.random({"const": [a]})
        if x != float(a):
            raise Violation("C18.const", "a constant specification did not yield its value", "%s -> %r" % (a, x))
        wit.inc("const")
    elif kind == "plain":
        x = jr.random(a)
        if x != float(a):
            raise Violation("C18.plain", "a plain number was changed", "%s -> %r" % (a, x))
    elif kind == "normal":
        x = jr.random({"normal": [a, b]})
        if abs(x - (a + b * g)) > 1e-12 * max(1.0, abs(a)):
            raise Violation("C18.normal", "a normal value is not mu + sigma z", "mu=%s sigma=%s z=%s -> %r" % (a, b, g, x))
        wit.inc("normal")
    elif kind == "expon":
        x = jr.random({"expon": [a]})
        want = -a * math.log(u)
        if not x > 0 or abs(x - want) > 1e-12 * max(1.0, want):
            raise Violation("C18.expon", "an exponential value is not positive or not -lambda ln u", "lambda=%s u=%r -> %r" % (a, u, x))
        wit.inc("expon")
    else:
        spec = BADSPECS[a]
        try:
            x = JsonRandom(StubRandom(u=0.5)).random(spec)
        except (ValueError, TypeError):
            wit.inc("malformed_spec_rejected")
            return ("bad", a)
        raise Violation("C18.malformed_accepted", "a malformed distribution specification was accepted", "%r -> %r" % (spec, x))
    return (kind, a, b)

# ---------------------------------------------------------------------------------------------- 5


class UserX(Agent):
    def submit_orders(self, markets):
        return []


class _UserHF(HighFrequencyAgent):
    def submit_orders(self, markets):
        return []


class _Clash(Agent):
    def submit_orders(self, markets):
        return []


_Clash.__name__ = "Market"


def class_cases():
    out = []
    for mod in (pams, pams.agents, pams.events, pams.logs, pams.utils):
        for name, obj in sorted(vars(mod).items()):
            if inspect.isclass(obj) and not name.startswith("_"):
                out.append(("builtin", mod.__name__, name))
    out += [("sequence", None, "UserX"), ("sequence", None, "FCNAgent"), ("sequence", None, "Market"),
            ("user", None, "UserX"), ("unknown", None, "Nope"), ("unknown_with_list", None, "Nope"),
            ("dup_user", None, "UserX"), ("clash", None, "Market"),
            # namesakes that are RELATED: a class keeping the name of the class it extends (a built-in one, or another registered one)
            ("clash_sub", None, "FCNAgent"), ("clash_sub", None, "Market"), ("clash_sub", None, "OrderMistakeShock"),
            ("dup_user_sub", None, "base_first"), ("dup_user_sub", None, "derived_first")]
    # the same through a runner: classes handed to class_register, then a configuration naming them
    out += [("runner", None, k) for k in ("one_user_class", "two_classes_same_name", "two_classes_same_name_other_between",
                                          "same_class_twice", "clash_with_builtin", "two_runners_same_name")]
    return out


def class_fn(case, wit):
    kind, modname, name = case
    if kind == "builtin":
        mod = {m.__name__: m for m in (pams, pams.agents, pams.events, pams.logs, pams.utils)}[modname]
        obj = getattr(mod, name)
        try:
            got = find_class(name)
        except Exception as e:  # noqa
            raise Violation("C18.class_builtin", "a public pams class name does not resolve", "%s.%s: %r" % (modname, name, e))
        if got is not obj:
            raise Violation("C18.class_builtin", "a public pams class name resolves to another class", "%s.%s -> %r" % (modname, name, got))
        wit.inc("builtin_class_resolved")
    elif kind == "sequence":
        # the same name resolved several times in one process against different registered-class lists
        if name == "UserX":
            class _Other(Agent):
                def submit_orders(self, markets):
                    return []
            _Other.__name__ = "UserX"
            a = find_class("UserX", [UserX])
            b = find_class("UserX", [_Other])
            if a is not UserX or b is not _Other:
                raise Violation("C18.class_user", "a registered user class does not resolve to the class registered with THIS runner",
                                "first %r then %r" % (a, b))
            for args in (("UserX", None), ("UserX", []), ("UserX", [UserX, _Other])):
                try:
                    got = find_class(*args)
                except AttributeError:
                    continue
                raise Violation("C18.class_ambiguous", "an unknown or ambiguous class name was resolved instead of reported",
                                "after earlier resolutions of the same name: %r -> %r" % (args[1], got))
        else:
            builtin = find_class(name)

            class _Shadow(Agent):
                def submit_orders(self, markets):
                    return []
            _Shadow.__name__ = name
            try:
                got = find_class(name, [_Shadow])
            except AttributeError:
                got = None
            if got is not None:
                raise Violation("C18.class_ambiguous", "an unknown or ambiguous class name was resolved instead of reported",
                                "built-in %s resolved first, then a registered class of the same name -> %r" % (name, got))
            if find_class(name) is not builtin:
                raise Violation("C18.class_builtin", "a public pams class name resolves to another class", name)
        wit.inc("class_resolution_sequences")
    elif kind == "runner":
        class _Other(Agent):
            def submit_orders(self, markets):
                return []
        _Other.__name__ = "UserX"

        class _Third(Agent):
            def submit_orders(self, markets):
                return []

        def runner(classes):
            cfg = {"simulation": {"markets": ["M"], "agents": ["A"], "sessions": [dict(BASE, sessionName=0)]},
                   "M": {"class": "Market", "tickSize": 1.0, "marketPrice": 100.0},
                   "A": {"class": "UserX", "numAgents": 2, "markets": ["M"], "cashAmount": 100, "assetVolume": 1}}
            r = SequentialRunner(cfg, random.Random(1), None)
            for c in classes:
                r.class_register(c)
            r._setup()
            return r
        if name in ("one_user_class", "two_runners_same_name"):
            for cls in ((UserX,) if name == "one_user_class" else (UserX, _Other, UserX)):
                r = runner([cls, _Third])
                if not all(type(a) is cls for a in r.simulator.agents) or len(r.simulator.agents) != 2:
                    raise Violation("C18.class_user", "a registered user class does not resolve to the class registered with THIS runner",
                                    "registered %r, agents are %r" % (cls, [type(a) for a in r.simulator.agents]))
            wit.inc("user_class_resolved")
        else:
            classes = {"two_classes_same_name": [UserX, _Other], "two_classes_same_name_other_between": [_Other, _Third, UserX],
                       "same_class_twice": [UserX, UserX], "clash_with_builtin": [UserX, _Clash]}[name]
            cfgcls = "Market" if name == "clash_with_builtin" else "UserX"
            try:
                r = runner(classes)
            except (AttributeError, ValueError):
                wit.inc("class_error_reported")
                return (kind, name)
            if name == "clash_with_builtin":
                # nothing in this configuration names "Market" ambiguously unless the market entry does: it does
                raise Violation("C18.class_ambiguous", "an unknown or ambiguous class name was resolved instead of reported",
                                "a user class named Market registered next to the built-in one; the market entry resolved to %r" % type(r.simulator.markets[0]))
            raise Violation("C18.class_ambiguous", "an unknown or ambiguous class name was resolved instead of reported",
                            "%s: classes registered %r; the agents are %r" % (name, classes, [type(a) for a in r.simulator.agents]))
    elif kind == "user":
        if find_class("UserX", [UserX]) is not UserX:
            raise Violation("C18.class_user", "a registered user class does not resolve", "")
        wit.inc("user_class_resolved")
    elif kind in ("clash_sub", "dup_user_sub"):
        if kind == "clash_sub":
            base = find_class(name)
            sub = type(name, (base,), {})
            args = (name, [sub])
        else:
            sub = type("UserX", (UserX,), {})
            args = ("UserX", [UserX, sub] if name == "base_first" else [sub, UserX])
        try:
            got = find_class(*args)
        except AttributeError:
            wit.inc("related_namesakes_reported")
            return (kind, name)
        raise Violation("C18.class_ambiguous", "an unknown or ambiguous class name was resolved instead of reported",
                        "two classes named %s, one a subclass of the other (%s): resolved to %r" % (args[0], name, got))
    else:
        args = {"unknown": ("Nope", None), "unknown_with_list": ("Nope", [UserX]), "dup_user": ("UserX", [UserX, UserX]),
                "clash": ("Market", [_Clash])}[kind]
        try:
            got = find_class(*args)
        except AttributeError:
            wit.inc("class_error_reported")
            return (kind,)
        raise Violation("C18.class_ambiguous", "an unknown or ambiguous class name was resolved instead of reported", "%s -> %r" % (kind, got))
    return (kind, name)

# ---------------------------------------------------------------------------------------------- 6


BASE = {"iterationSteps": 1, "withOrderPlacement": True, "withOrderExecution": True, "withPrint": False}


def legacy_cases():
    for v in (None, 0, 1, 2, 5):
        for rt in (None, 0.0, 0.25, 0.5, 1.0):
            yield ("eq", v, rt)
    yield ("both_max", 1, None)
    yield ("both_rate", None, 0.5)


def legacy_fn(case, wit):
    kind, v, rt = case
    if kind == "eq":
        new, old = dict(BASE), dict(BASE)
        if v is not None:
            new["maxHighFrequencyOrders"] = v
            old["maxHifreqOrders"] = v
        if rt is not None:
            new["highFrequencySubmitRate"] = rt
            old["hifreqSubmitRate"] = rt
        a = Session(0, random.Random(0), 0, None, "s")
        a.setup(new)
        b = Session(0, random.Random(0), 0, None, "s")
        b.setup(old)
        ga = (a.max_high_frequency_orders, a.high_frequency_submission_rate, a.max_normal_orders)
        gb = (b.max_high_frequency_orders, b.high_frequency_submission_rate, b.max_normal_orders)
        if ga != gb:
            raise Violation("C18.legacy", "a deprecated session key does not set the same parameter as its replacement",
                            "maxHifreqOrders=%s hifreqSubmitRate=%s -> (max HF orders, HF rate, max normal)=%s, modern keys give %s" % (v, rt, gb, ga))
        want_v = 1 if v is None else v
        want_r = 1.0 if rt is None else rt
        if ga[:2] != (want_v, want_r):
            raise Violation("C18.session_params", "session parameters differ from the configured values", "%s vs %s" % (ga, (want_v, want_r)))
        wit.inc("legacy_key_equal")
        return ("eq", v, rt)
    s = dict(BASE)
    if kind == "both_max":
        s.update(maxHighFrequencyOrders=1, maxHifreqOrders=1)
    else:
        s.update(highFrequencySubmitRate=0.5, hifreqSubmitRate=0.5)
    try:
        Session(0, random.Random(0), 0, None, "s").setup(s)
    except ValueError:
        wit.inc("legacy_both_rejected")
        return (kind,)
    raise Violation("C18.legacy_both", "a deprecated key given together with its replacement was accepted", kind)


GRIDS = {"inheritance": inherit_fn, "counts_and_ranges": range_fn, "accessible_markets": access_fn,
         "random_values": random_fn, "class_names": class_fn, "legacy_keys": legacy_fn}


# ---------------------------------------------------------------------------------------------- 7
# every kind of configured entity (market, agent, event) may take its class and its parameters from an ancestor


def entity_cases():
    for kind in ("market", "agent", "event"):
        for depth in (1, 2):
            for class_at in range(0, depth + 1):  # 0 = the listed entry itself, depth = the most distant ancestor
                for override in (False, True):
                    yield (kind, depth, class_at, override)


def entity_fn(case, wit):
    kind, depth, class_at, override = case
    full = {"market": {"class": "Market", "tickSize": 0.5, "marketPrice": 100.0},
            "agent": {"class": "FCNAgent", "numAgents": 1, "markets": ["M"], "cashAmount": 1000, "assetVolume": 5, "fundamentalWeight": 1.0,
                      "chartWeight": 0.0, "noiseWeight": 0.0, "noiseScale": 0.001, "timeWindowSize": 3, "orderMargin": 0.0},
            "event": {"class": "FundamentalPriceShock", "target": "M", "triggerTime": 1, "priceChangeRate": 0.5, "shockTimeLength": 1}}
    okey, oval = {"market": ("tickSize", 2.0), "agent": ("cashAmount", 777), "event": ("priceChangeRate", -0.25)}[kind]
    names = {"market": "M", "agent": "A", "event": "E"}
    cfg = {"simulation": {"markets": ["M"], "agents": ["A"],
                          "sessions": [{"sessionName": 0, "iterationSteps": 3, "withOrderPlacement": True, "withOrderExecution": True,
                                        "withPrint": False, "maxNormalOrders": 1, "events": ["E"]}]}}
    for k in ("market", "agent", "event"):
        if k != kind:
            cfg[names[k]] = dict(full[k])
    # the chain: listed entry <- ancestor 1 <- ... ; the class sits at level class_at, all other keys at the far end
    chain = [names[kind]] + ["%sAnc%d" % (names[kind], i) for i in range(1, depth + 1)]
    for lvl, nm in enumerate(chain):
        blk = {}
        if lvl < depth:
            blk["extends"] = chain[lvl + 1]
        if lvl == depth:
            blk.update({k: v for k, v in full[kind].items() if k != "class"})
        if lvl == class_at:
            blk["class"] = full[kind]["class"]
        if lvl == 0 and override:
            blk[okey] = oval
        cfg[nm] = blk
    r = SequentialRunner(cfg, random.Random(3), None)
    try:
        r._setup()
        r._run()
    except Exception as e:  # noqa
        raise Violation("C18.entity_inheritance", "a %s whose class or parameters come from an ancestor through extends is rejected" % kind,
                        "%s: %s | case %s" % (type(e).__name__, str(e)[:100], case))
    sim = r.simulator
    want = oval if override else full[kind][okey]
    if kind == "market":
        ent = sim.name2market["M"]
        got = ent.tick_size
    elif kind == "agent":
        ent = sim.agents[0]
        got = ent.cash_amount
    else:
        ent, got = None, want  # judged by what the event does (below), not by the simulator's hook registry
    if ent is not None and (type(ent).__name__ != full[kind]["class"] or got != want):
        raise Violation("C18.entity_inheritance", "a %s does not get its class / the nearest definition of a key through extends" % kind,
                        "class %s, %s=%r expected %s, %r | case %s" % (type(ent).__name__, okey, got, full[kind]["class"], want, case))
    if kind == "event":
        m = sim.name2market["M"]
        f1, f2 = m.get_fundamental_price(1), m.get_fundamental_price(0)
        if abs(f1 / f2 - (1 + want)) > 1e-12:
            raise Violation("C18.entity_inheritance", "an event configured through extends does not act with the nearest definition of its parameters",
                            "fundamental ratio %r expected %r | case %s" % (f1 / f2, 1 + want, case))
    wit.inc("entity_through_extends")
    return (kind, depth, class_at == 0, override)


GRIDS["entity_kinds_through_extends"] = entity_fn


def run(tier, seed):
    res = common.Result("C18", tier, seed)
    if tier == "quick":
        inh = list(inherit_cases(3, ["p", "q", "x"]))
    else:
        inh = list(inherit_cases(3, ["p", "q", "x"])) + list(inherit_cases(4, ["p", "x"]))
    run_grid(res, "inheritance", inh, inherit_fn, seed)
    run_grid(res, "counts_and_ranges", list(range_cases()), range_fn, seed)
    run_grid(res, "accessible_markets", list(access_cases()), access_fn, seed)
    run_grid(res, "random_values", list(random_cases()), random_fn, seed)
    run_grid(res, "class_names", class_cases(), class_fn, seed)
    run_grid(res, "legacy_keys", list(legacy_cases()), legacy_fn, seed)
    run_grid(res, "entity_kinds_through_extends", list(entity_cases()), entity_fn, seed)
    res.coverage["exhaustive"] = True
    res.coverage["rule"] = RULE
    res.assumptions = ["PRNG answer alphabet {2^-53, 1/4, 1/2, 1-2^-53} (gauss {-3,0,3}); u = 0.0 exactly is excluded for expon (probability 2^-53)",
                       "inheritance graphs with at most 3 (thorough: 4) entries"]
    res.require_witness(WIT)
    return res


def replay(payload):
    fn = GRIDS[payload["grid"]]
    case = payload["case"]

    def tup(x):
        return tuple(tup(y) for y in x) if isinstance(x, list) else x
    case = tup(case)
    print("grid %s case %r" % (payload["grid"], case))
    try:
        out = fn(case, common.Counter())
    except Violation as v:
        print("  ==> VIOLATION %s: %s" % (v.monitor, v.msg))
        print("VIOLATION property=C18 replay=(this file)")
        return 1
    print("replay: no violation on this tree (outcome class %r)" % (out,))
    return 0
