"""C07: reproducibility -- configuration and seed determine the whole run.
Bounded enumeration: configuration family x seeds x ambient perturbation set, all combinations run."""
import json
import os
import subprocess
import sys

from .. import common

RULE = ("the complete product configuration family (every built-in agent, market and event type, correlated volatile fundamentals, "
        "all JsonRandom forms, several market groups with randomised endowments, single events, all pairs, all four, and a user event whose every hook call (all nine hook kinds) nudges a fundamental price; plus the "
        "shipped sample configurations shrunk) x seeds x perturbation set {PYTHONHASHSEED 0/1/4242 in separate processes, "
        "global random/numpy.random re-seeded and advanced (two ways), other runs first in the same process (also runs whose runner registered different user classes under the same names), the same run twice, "
        "the same settings object reused, no logger / the no-op base Logger / MarketStepSaver attached instead of the recording logger (end state compared), a logger making read-only queries (incl. the fundamental generator 150 steps ahead where no shock is configured) at every record, every configuration written to one and the same file (rewritten each time) and given as a path}; the digest of the whole observable outcome must be identical across the perturbations "
        "of one (configuration, seed), settings must not be mutated, and with every un-owned source replaced by a raising stub "
        "all runs must complete; distinct = distinct (configuration, seed) digests")
# (name, mode, PYTHONHASHSEED)
PERTURBATIONS = [("hash0", "plain", "0"), ("hash1", "plain", "1"), ("hash4242", "plain", "4242"), ("global_rng_a", "perturb_a", "7"),
                 ("global_rng_b", "perturb_b", "0"), ("prior_run", "prior_run", "3"), ("prior_namesake", "prior_namesake", "0"), ("twice", "twice", "0"), ("reuse", "reuse", "5"),
                 ("trap", "trap", "0"), ("logger_none", "logger_none", "0"), ("logger_base", "logger_base", "2"), ("logger_saver", "logger_saver", "0"), ("logger_peek", "logger_peek", "0"), ("via_file", "via_file", "0")]


def child(arg):
    name, mode, hs, seeds, only = arg
    env = dict(os.environ, PYTHONHASHSEED=hs, PYTHONDONTWRITEBYTECODE="1", PYTHONWARNINGS="ignore")
    p = subprocess.run([sys.executable, "-W", "ignore", "-m", "vf.c07_child", mode, ",".join(map(str, seeds)), only or ""],
                       cwd=common.VERIF_DIR, env=env, capture_output=True, text=True)
    line = [l for l in p.stdout.splitlines() if l.startswith("C07CHILD ")]
    if not line:
        raise common.HarnessError("C07 child %s produced no result: %s" % (name, (p.stderr or p.stdout)[-800:]))
    return name, json.loads(line[-1][len("C07CHILD "):])


def family_names():
    env = dict(os.environ, PYTHONHASHSEED="0", PYTHONDONTWRITEBYTECODE="1", PYTHONWARNINGS="ignore")
    p = subprocess.run([sys.executable, "-W", "ignore", "-c", "from vf import c07_child as c; import json; print('NAMES ' + json.dumps(sorted(c.full_family())))"],
                       cwd=common.VERIF_DIR, env=env, capture_output=True, text=True)
    line = [l for l in p.stdout.splitlines() if l.startswith("NAMES ")]
    if not line:
        raise common.HarnessError("cannot list the C07 family: %s" % p.stderr[-500:])
    return json.loads(line[-1][6:])


def run(tier, seed, only=None):
    res = common.Result("C07", tier, seed, level="exploration")
    seeds = sorted(set([0, 1, 2, seed % 100000] + ([3, 5, 8, 13, 21, 34, 55, 89] if tier != "quick" else [])))
    # the family is split in two halves per perturbation to use the cores
    args = [(n, m, hs, seeds, only) for (n, m, hs) in PERTURBATIONS]
    # "solo": every configuration alone in a fresh interpreter (nothing ran before it in that process)
    names = family_names() if only is None else [only]
    solo_args = [("solo:" + n, "plain", "11", seeds, n) for n in names]
    allres = common.pool_map(child, args + solo_args, procs=16)
    results = {n: r for n, r in allres if not n.startswith("solo:")}
    solo = {}
    for n, r in allres:
        if n.startswith("solo:"):
            solo.update(r)
    results["solo"] = solo
    keys = sorted(results["hash0"])
    distinct = set()
    nruns = 0
    for key in keys:
        base = results["hash0"][key]
        cfgname, sd = key.rsplit("#", 1)
        if str(base[0]).startswith("EXC:"):
            res.add_violation("C07.run_failed", "a configuration of the family does not run | %s: %s" % (key, base[0]),
                              "C07.run_failed:%s" % cfgname, dict(engine="C07", config=cfgname, seed=int(sd), perturbation="hash0"))
            continue
        distinct.add(base[0])
        for pname in [p_[0] for p_ in PERTURBATIONS] + ["solo"]:
            got = results[pname].get(key)
            nruns += 1
            if got is None:
                raise common.HarnessError("child %s has no result for %s" % (pname, key))
            if pname == "trap":
                if str(got[0]).startswith("EXC:") and "ambient source used" in got[0]:
                    what = got[0].split("ambient source used: ")[1].split(" at ")[0]
                    res.add_violation("C07.ambient_source", "the run reads a source of randomness or time that is not derived from the configuration and the seed | %s in %s: %s" % (what, key, got[0][-120:]),
                                      "C07.ambient_source:%s" % what, dict(engine="C07", config=cfgname, seed=int(sd), perturbation="trap"))
                    continue
            if got[1]:
                res.add_violation("C07.settings_mutated", "running modified the caller's settings object | %s under %s" % (key, pname),
                                  "C07.settings_mutated:%s" % cfgname, dict(engine="C07", config=cfgname, seed=int(sd), perturbation=pname))
            if pname == "logger_peek":
                # the recording logger plus read-only queries at every record: everything must be identical
                if got[0] != base[0]:
                    res.add_violation("C07.outcome_differs", "the outcome of a (configuration, seed) depends on read-only queries made while it runs | %s: %s vs %s" % (key, base[0], got[0]),
                                      "C07.outcome_differs:read_only_queries:%s" % cfgname.split(":")[0],
                                      dict(engine="C07", config=cfgname, seed=int(sd), perturbation=pname))
                continue
            if pname.startswith("logger_"):
                # a different (or no) logger attached: only the end state is comparable
                if got[2] != base[2]:
                    res.add_violation("C07.outcome_differs", "the end state of a (configuration, seed) depends on which logger is attached | %s: %s vs %s under %s" % (key, base[2], got[2], pname),
                                      "C07.outcome_differs:logger:%s" % cfgname.split(":")[0],
                                      dict(engine="C07", config=cfgname, seed=int(sd), perturbation=pname))
                continue
            if got[0] != base[0]:
                kind = {"hash1": "hash seed", "hash4242": "hash seed", "global_rng_a": "global generators", "global_rng_b": "global generators",
                        "prior_run": "earlier runs in the process", "prior_namesake": "earlier runs in the process", "twice": "earlier runs in the process", "solo": "earlier runs in the process", "reuse": "reuse of the settings object",
                        "trap": "ambient sources", "via_file": "way the configuration is handed over (a file path used for other configurations before)"}.get(pname, pname)
                res.add_violation("C07.outcome_differs", "the outcome of a (configuration, seed) depends on the %s | %s: %s vs %s under %s" % (kind, key, base[0], got[0], pname),
                                  "C07.outcome_differs:%s:%s" % (kind.replace(" ", "_"), cfgname.split(":")[0]),
                                  dict(engine="C07", config=cfgname, seed=int(sd), perturbation=pname))
    cov = res.coverage
    cov["evaluations"] = nruns
    cov["distinct_nontrivial"] = len(distinct)
    cov["exhaustive"] = True
    cov["rule"] = RULE
    cov["configurations"] = len(set(k.rsplit("#", 1)[0] for k in keys))
    cov["seeds"] = seeds
    cov["perturbations"] = [p[0] for p in PERTURBATIONS] + ["solo (each configuration alone in a fresh process)"]
    cov["samples"] = [dict(config=k, digest=results["hash0"][k][0]) for k in keys[:: max(1, len(keys) // 4)][:4]]
    cov["explanation"] = "finite product of configurations x seeds x perturbations, every combination executed; seeds cannot be enumerated (four are run, more in the thorough tier)"
    res.assumptions = ["seeds are a finite set; what is exhaustive is configuration family x perturbation set x those seeds",
                       "the trap replaces module-level random.*, legacy numpy.random.*, unseeded Random()/default_rng(), os.urandom and time.* by raising stubs during _setup/_run"]
    if len(distinct) < len(keys) // 2:
        res.harness_errors.append("vacuous: only %d distinct digests for %d (configuration, seed) pairs" % (len(distinct), len(keys)))
    return res


def replay(payload):
    only = payload["config"]
    res = run("quick", int(payload.get("seed", 0)), only=only)
    for v in res.violations:
        print("  ==> VIOLATION %s: %s" % (v["monitor"], v["msg"]))
    if res.violations:
        print("VIOLATION property=C07 replay=(this file)")
        return 1
    print("replay: no violation on this tree")
    return 0
