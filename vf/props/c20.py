"""C20: built-in agents emit well-formed orders that follow their documented strategy -- Engine F on real agents in real markets."""
import itertools
import math
import random
from collections import Counter as PyCounter

from .. import common
from ..common import Violation, Counter
from ..enum_f import run_grid, StubRandom

common.import_pams()
from pams.agents import ArbitrageAgent, FCNAgent, MarketMakerAgent, MarketShareFCNAgent  # noqa: E402
from pams.index_market import IndexMarket  # noqa: E402
from pams.market import Market  # noqa: E402
from pams.order import LIMIT_ORDER, MARKET_ORDER, Cancel, Order  # noqa: E402
from pams.simulator import Simulator  # noqa: E402

RULE = ("agent parameter grids x market states (price histories built by real trades, fundamental prices, resting quotes, "
        "index/component price gaps on both sides of the threshold, running flags) x enumerated answers of the agent's PRNG; "
        "the orders emitted by the real agent classes are compared with independently written strategy formulas and with the "
        "well-formedness rules; distinct = outcome classes (side / market / acted-or-not)")
WIT = ["fcn_buy", "fcn_sell", "fcn_nothing", "fcn_inaccessible", "fcn_clock_below_window", "fcn_mean_reversion_distinct",
       "share_choice_0", "share_choice_1", "share_zero_volume", "mm_quotes", "mm_base_from_market_price", "mm_inaccessible_market_ignored",
       "mm_market_order_on_top", "arb_no_action_within_threshold", "arb_gap_exactly_threshold", "arb_buy_index", "arb_sell_index",
       "arb_not_running", "arb_two_indices_acted", "arb_index_shown_but_not_accessible", "arb_component_moved_between_consultations", "test_agent_cases", "fcn_normal_margin_cases", "fcn_on_index_market", "fcn_two_markets_different_clocks", "fcn_zero_or_negative_holdings", "fcn_parameters_reassigned_between_consultations", "group_member_setups", "well_formed_orders"]


class Sim(Simulator):
    """a REAL simulator object (markets are entered into its name / id tables by the grids themselves)"""

    def __init__(self):
        super().__init__(prng=random.Random(0))


def well_formed(o, agent, wit):
    if isinstance(o, Cancel):
        return
    ok = (isinstance(o, Order) and o.agent_id == agent.agent_id and agent.is_market_accessible(o.market_id)
          and isinstance(o.volume, int) and o.volume >= 1 and o.placed_at is None and o.order_id is None and not o.is_canceled
          and (o.ttl is None or (isinstance(o.ttl, int) and o.ttl >= 1)))
    if ok and o.kind == LIMIT_ORDER:
        ok = isinstance(o.price, float) and math.isfinite(o.price) and o.price > 0
    elif ok:
        ok = o.kind == MARKET_ORDER and o.price is None
    if not ok:
        raise Violation("C20.well_formed", "a built-in agent emitted a malformed order (foreign id, inaccessible market, bad volume/price/ttl or already stamped)",
                        "%r by agent %s" % (o, agent.agent_id))
    wit.inc("well_formed_orders")


def trade(m, mid, p, v=1):
    m._add_order(Order(9, mid, True, LIMIT_ORDER, v, price=float(p)))
    m._add_order(Order(9, mid, False, LIMIT_ORDER, v, price=float(p)))
    m._execution()


# ------------------------------------------------------------------------------------------------ FCN


def mk_hist_market(mid, hist, fund, sim=None, vols=None, index_over=None):
    if index_over is not None:
        # the traded market is an index market; its own (stored) fundamental price is `fund`, whatever its components' are
        sim = sim or Sim()
        for c in index_over:
            sim.name2market[c.name] = c
        m = IndexMarket(mid, None, sim, "m%d" % mid)
        m.setup({"tickSize": 0.125, "marketPrice": hist[0], "markets": [c.name for c in index_over]})
    else:
        m = Market(mid, None, sim, "m%d" % mid)
        m.setup({"tickSize": 0.125, "marketPrice": hist[0]})
    m._is_running = True
    for i, p in enumerate(hist):
        for c in (index_over or []):
            if i > 0:
                c._update_time(c.get_fundamental_price())  # components keep the index market's clock
        m._update_time(float(fund))
        v = 1 if vols is None else vols[i]
        if v:
            trade(m, mid, p, v)
    if sim is not None:
        sim.name2market[m.name] = m
        sim.id2market[mid] = m
    return m


def fcn_reference(m, fund, wf, wc, wn, ns, g, win, mr):
    t = m.get_time()
    p = m.get_market_price()
    tw = min(t, win)
    Fd = math.log(fund / p) / max(mr if mr else win, 1)
    Cc = math.log(p / m.get_market_price(t - tw)) / max(tw, 1)
    N = ns * g
    r = (wf * Fd + wc * Cc + wn * N) / (wf + wc + wn)
    return p, r, p * math.exp(r * win)


def check_fcn_orders(orders, m, p, r, ph, k, win, mid, wit, tag):
    if r == 0.0:
        if orders:
            raise Violation("C20.fcn_side", "an FCN agent submitted an order although its expected price equals the market price", tag)
        wit.inc("fcn_nothing")
        return "none"
    if abs(ph - p) <= 1e-12 * p:
        return "edge"
    if len(orders) != 1:
        raise Violation("C20.fcn_count", "an FCN agent did not submit exactly one order for a market where its expected price differs from the market price",
                        "%s orders=%r" % (tag, orders))
    o = orders[0]
    want_buy = ph > p
    if o.is_buy != want_buy:
        raise Violation("C20.fcn_side", "an FCN agent does not buy exactly when its expected future price exceeds the market price",
                        "%s expected price %r market price %r order %s" % (tag, ph, p, "buy" if o.is_buy else "sell"))
    want = ph * (1 - k) if want_buy else ph * (1 + k)
    if abs(o.price - want) > 1e-12 * max(1.0, want):
        raise Violation("C20.fcn_price", "an FCN agent does not quote the documented expected price shaded by its margin",
                        "%s got %r expected %r (expected future price %r)" % (tag, o.price, want, ph))
    if o.market_id != mid or o.kind != LIMIT_ORDER or o.volume != 1 or o.ttl != win:
        raise Violation("C20.fcn_order", "an FCN order has the wrong market, kind, volume or lifetime", "%s %r" % (tag, o))
    wit.inc("fcn_buy" if want_buy else "fcn_sell")
    return "buy" if want_buy else "sell"


WEIGHTS = [w for w in itertools.product([0, 1, 3], repeat=3) if sum(w) > 0]
INNER = list(itertools.product([0, 2.0 ** -7], [-2.0, 0.0, 2.0], [1, 2, 5], [None, 1, 4], [0, 0.125, 0.5]))


def fcn_cases(tier):
    for L in (1, 2, 3, 4):
        hs = itertools.product([96, 100, 104], repeat=L) if L < 4 else [(96, 104, 100, 96), (104, 104, 96, 100), (100, 96, 96, 104)]
        for hist in hs:
            for fund in (90, 100, 110):
                yield (hist, fund)


def fcn_fn(case, wit):
    hist, fund = case
    m = mk_hist_market(0, hist, fund)
    classes = set()
    for (wf, wc, wn) in WEIGHTS:
        for ns, g, win, mr, k in INNER:
            a = FCNAgent(3, StubRandom(g=g), Sim(), "a")
            st = {"cashAmount": 100, "assetVolume": 1, "fundamentalWeight": wf, "chartWeight": wc, "noiseWeight": wn,
                  "noiseScale": ns, "timeWindowSize": win, "orderMargin": k}
            if mr:
                st["meanReversionTime"] = mr
            a.setup(st, [0])
            orders = a.submit_orders([m])
            wit.inc("fcn_cases")
            for o in orders:
                well_formed(o, a, wit)
            p, r, ph = fcn_reference(m, fund, wf, wc, wn, ns, g, win, mr)
            tag = "history %s fundamental %s weights (%s,%s,%s) noise %s x %s window %s mean-reversion %s margin %s" % (
                hist, fund, wf, wc, wn, ns, g, win, mr, k)
            classes.add(check_fcn_orders(orders, m, p, r, ph, k, win, 0, wit, tag))
            if m.get_time() < win:
                wit.inc("fcn_clock_below_window")
            if mr and mr != win:
                wit.inc("fcn_mean_reversion_distinct")
    # normal-margin mode: the side rule and well-formedness hold as well; the quote is expected price + noise x margin
    for (wf, wc, wn) in ((1, 0, 0), (1, 1, 1), (0, 3, 1)):
        for g in (-2.0, 0.0, 2.0):
            for win in (1, 5):
                for k in (0.0, 0.5):
                    a = FCNAgent(3, StubRandom(g=g), Sim(), "a")
                    a.setup({"cashAmount": 100, "assetVolume": 1, "fundamentalWeight": wf, "chartWeight": wc, "noiseWeight": wn, "noiseScale": 2.0 ** -7,
                             "timeWindowSize": win, "orderMargin": k, "marginType": "normal"}, [0])
                    orders = a.submit_orders([m])
                    for o in orders:
                        well_formed(o, a, wit)
                    p, r, ph = fcn_reference(m, fund, wf, wc, wn, 2.0 ** -7, g, win, None)
                    if r == 0.0:
                        ok = not orders
                    elif abs(ph - p) <= 1e-12 * p:
                        continue
                    else:
                        ok = (len(orders) == 1 and orders[0].is_buy == (ph > p) and abs(orders[0].price - (ph + g * k)) <= 1e-9 * ph
                              and orders[0].ttl == win and orders[0].volume == 1)
                    if not ok:
                        raise Violation("C20.fcn_normal_margin", "an FCN agent in normal-margin mode does not buy exactly when its expected price exceeds the market price (quote = expected price + noise x margin)",
                                        "history %s fundamental %s weights (%s,%s,%s) noise %s window %s margin %s -> %r" % (hist, fund, wf, wc, wn, g, win, k, orders))
                    wit.inc("fcn_normal_margin_cases")
    # the traded market is an index market whose components' fundamentals (x 1.25, x 0.5) differ from its own stored one:
    # the strategy uses the traded market's own fundamental price
    for scale in (1.25, 0.5):
        sim2 = Sim()
        comps = [mk_quote_market(sim2, 10 + i, fund * scale, "none", tr=100 + 4 * i) for i in range(2)]
        mi = mk_hist_market(0, hist, fund, index_over=comps)
        for (wf, wc, wn) in ((1, 0, 0), (3, 1, 0), (1, 1, 1)):
            for ns, g, win, mr, k in ((0, 0.0, 2, None, 0), (2.0 ** -7, 2.0, 5, 4, 0.125), (2.0 ** -7, -2.0, 1, None, 0.5)):
                a = FCNAgent(3, StubRandom(g=g), Sim(), "a")
                st = {"cashAmount": 100, "assetVolume": 1, "fundamentalWeight": wf, "chartWeight": wc, "noiseWeight": wn,
                      "noiseScale": ns, "timeWindowSize": win, "orderMargin": k}
                if mr:
                    st["meanReversionTime"] = mr
                a.setup(st, [0])
                orders = a.submit_orders([mi])
                for o in orders:
                    well_formed(o, a, wit)
                p, r, ph = fcn_reference(mi, fund, wf, wc, wn, ns, g, win, mr)
                tag = "INDEX market (components' fundamental %s) history %s fundamental %s weights (%s,%s,%s) noise %s x %s window %s mean-reversion %s margin %s" % (
                    fund * scale, hist, fund, wf, wc, wn, ns, g, win, mr, k)
                check_fcn_orders(orders, mi, p, r, ph, k, win, 0, wit, tag)
                wit.inc("fcn_on_index_market")
    # one consultation about two markets whose clocks differ (worlds built through the market API): each order follows its own
    # market's history
    if len(hist) >= 2:
        m2 = mk_hist_market(1, hist[:1], fund)
        for (wf, wc, wn) in ((0, 1, 0), (1, 3, 0), (1, 1, 1)):
            for ns, g, win, mr, k in ((0, 0.0, 1, None, 0), (2.0 ** -7, 2.0, 2, None, 0.125), (2.0 ** -7, -2.0, 5, 4, 0.5)):
                for first in (0, 1):
                    a = FCNAgent(3, StubRandom(g=g), Sim(), "a")
                    st = {"cashAmount": 100, "assetVolume": 1, "fundamentalWeight": wf, "chartWeight": wc, "noiseWeight": wn,
                          "noiseScale": ns, "timeWindowSize": win, "orderMargin": k}
                    if mr:
                        st["meanReversionTime"] = mr
                    a.setup(st, [0, 1])
                    orders = a.submit_orders([m, m2] if first == 0 else [m2, m])
                    for o in orders:
                        well_formed(o, a, wit)
                    for mk_, mid in ((m, 0), (m2, 1)):
                        p, r, ph = fcn_reference(mk_, fund, wf, wc, wn, ns, g, win, mr)
                        tag = "two markets with clocks %d and %d shown together (%s first), market %d: history %s fundamental %s weights (%s,%s,%s) noise %s x %s window %s mean-reversion %s margin %s" % (
                            m.get_time(), m2.get_time(), "longer" if first == 0 else "shorter", mid, hist, fund, wf, wc, wn, ns, g, win, mr, k)
                        check_fcn_orders([o for o in orders if o.market_id == mid], mk_, p, r, ph, k, win, mid, wit, tag)
                    wit.inc("fcn_two_markets_different_clocks")
    # holdings of zero or below zero in an accessible market change nothing about the strategy
    for av in (0, -3):
        for (wf, wc, wn) in ((1, 0, 0), (1, 1, 1)):
            for ns, g, win, mr, k in ((0, 0.0, 2, None, 0), (2.0 ** -7, -2.0, 5, 4, 0.125)):
                a = FCNAgent(3, StubRandom(g=g), Sim(), "a")
                a.setup({"cashAmount": 0, "assetVolume": av, "fundamentalWeight": wf, "chartWeight": wc, "noiseWeight": wn, "noiseScale": ns,
                         "timeWindowSize": win, "orderMargin": k, **({"meanReversionTime": mr} if mr else {})}, [0])
                orders = a.submit_orders([m])
                for o in orders:
                    well_formed(o, a, wit)
                p, r, ph = fcn_reference(m, fund, wf, wc, wn, ns, g, win, mr)
                check_fcn_orders(orders, m, p, r, ph, k, win, 0, wit, "agent holding %d shares and no cash: history %s fundamental %s weights (%s,%s,%s)" % (av, hist, fund, wf, wc, wn))
                wit.inc("fcn_zero_or_negative_holdings")
    # not accessible: nothing
    a = FCNAgent(3, StubRandom(g=1.0), Sim(), "a")
    a.setup({"cashAmount": 100, "assetVolume": 1, "fundamentalWeight": 1, "chartWeight": 1, "noiseWeight": 1, "noiseScale": 0.01,
             "timeWindowSize": 2, "orderMargin": 0.1}, [])
    if a.submit_orders([m]):
        raise Violation("C20.fcn_inaccessible", "an FCN agent submitted an order for a market it cannot access", "history %s" % (hist,))
    wit.inc("fcn_inaccessible")
    return (hist[-1], fund, tuple(sorted(classes)))


_STATES = None


def fcn_persistent_cases(tier):
    for (wf, wc, wn) in WEIGHTS:
        for inner in INNER:
            yield (wf, wc, wn) + inner


def fcn_persistent_fn(case, wit):
    """ONE long-lived agent per parameter set consulted on every market state in turn (agents are
    long-lived in a simulation; anything an agent remembers between consultations is exercised)"""
    global _STATES
    if _STATES is None:
        _STATES = [(hist, fund, mk_hist_market(0, hist, fund)) for hist, fund in fcn_cases("quick")]
    wf, wc, wn, ns, g, win, mr, k = case
    a = FCNAgent(3, StubRandom(g=g), Sim(), "a")
    st = {"cashAmount": 100, "assetVolume": 1, "fundamentalWeight": wf, "chartWeight": wc, "noiseWeight": wn,
          "noiseScale": ns, "timeWindowSize": win, "orderMargin": k}
    if mr:
        st["meanReversionTime"] = mr
    a.setup(st, [0])
    classes = set()
    for hist, fund, m in _STATES:
        orders = a.submit_orders([m])
        for o in orders:
            well_formed(o, a, wit)
        p, r, ph = fcn_reference(m, fund, wf, wc, wn, ns, g, win, mr)
        tag = "long-lived agent, history %s fundamental %s weights (%s,%s,%s) noise %s x %s window %s mean-reversion %s margin %s" % (
            hist, fund, wf, wc, wn, ns, g, win, mr, k)
        classes.add(check_fcn_orders(orders, m, p, r, ph, k, win, 0, wit, tag))
        wit.inc("fcn_persistent_cases")
    return tuple(sorted(classes))


def fcn_reassign_cases(tier):
    """(first parameter set, second parameter set): the agent's public parameters are REASSIGNED between two consultations
    (a regime switch written by a user)"""
    inner = [(2.0 ** -7, 2.0, 2, None, 0.125), (0, -2.0, 5, 4, 0.0), (2.0 ** -7, -2.0, 1, 1, 0.5)]
    for w1 in WEIGHTS:
        for w2 in WEIGHTS:
            if w1 == w2:
                continue
            for i1 in range(len(inner)):
                yield w1 + inner[i1] + w2 + inner[(i1 + 1) % len(inner)]


def fcn_reassign_fn(case, wit):
    global _STATES
    if _STATES is None:
        _STATES = [(hist, fund, mk_hist_market(0, hist, fund)) for hist, fund in fcn_cases("quick")]
    states = _STATES[5::17]
    first, second = case[:8], case[8:]
    wf, wc, wn, ns, g, win, mr, k = first
    a = FCNAgent(3, StubRandom(g=g), Sim(), "a")
    st = {"cashAmount": 100, "assetVolume": 1, "fundamentalWeight": wf, "chartWeight": wc, "noiseWeight": wn,
          "noiseScale": ns, "timeWindowSize": win, "orderMargin": k}
    if mr:
        st["meanReversionTime"] = mr
    a.setup(st, [0])
    classes = set()
    for phase, (wf, wc, wn, ns, g, win, mr, k) in enumerate((first, second, first)):
        if phase:
            a.fundamental_weight, a.chart_weight, a.noise_weight = float(wf), float(wc), float(wn)
            a.noise_scale, a.time_window_size, a.order_margin = float(ns), win, float(k)
            a.mean_reversion_time = mr if mr else win
            a.prng = StubRandom(g=g)
        for hist, fund, m in states:
            orders = a.submit_orders([m])
            for o in orders:
                well_formed(o, a, wit)
            p, r, ph = fcn_reference(m, fund, wf, wc, wn, ns, g, win, mr)
            tag = "agent whose parameters were reassigned %d time(s) since its first consultation (first %s, then %s), history %s fundamental %s" % (
                phase, first, second, hist, fund)
            classes.add(check_fcn_orders(orders, m, p, r, ph, k, win, 0, wit, tag))
        if phase:
            wit.inc("fcn_parameters_reassigned_between_consultations")
    return tuple(sorted(classes))


# ------------------------------------------------------------------------------------------------ MarketShareFCN


def share_cases(tier):
    for v0 in itertools.product([0, 1, 5], repeat=3):
        for v1 in itertools.product([0, 1, 5], repeat=3):
            for win in (1, 5):
                for ci in (0, 1):
                    for g in (-2.0, 2.0):
                        yield (v0, v1, win, ci, g)


def share_fn(case, wit):
    v0, v1, win, ci, g = case
    sim = Sim()
    m0 = mk_hist_market(0, (100, 104, 100), 100, sim, vols=v0)
    m1 = mk_hist_market(1, (100, 96, 100), 110, sim, vols=v1)
    m2 = mk_hist_market(2, (100, 100, 100), 100, sim, vols=(5, 5, 5))  # not accessible
    prng = StubRandom(g=g, choice_index=ci)
    a = MarketShareFCNAgent(4, prng, sim, "ms")
    a.setup({"cashAmount": 100, "assetVolume": 1, "fundamentalWeight": 1, "chartWeight": 1, "noiseWeight": 1, "noiseScale": 2.0 ** -7,
             "timeWindowSize": win, "orderMargin": 0.125}, [0, 1])
    orders = a.submit_orders([m0, m2, m1])
    for o in orders:
        well_formed(o, a, wit)
    pop = list(prng.last_population)
    # the draw is over the accessible markets -- as objects, or as positions among them (either is a fine way to write it)
    if len(pop) != 2 or (all(isinstance(x, Market) for x in pop) and [id(x) for x in pop] != [id(m0), id(m1)]):
        raise Violation("C20.share_population", "a market-share FCN agent does not choose among exactly its accessible markets", "%r" % (case,))
    t = 2
    rec = [sum(v[max(0, t - win): t + 1]) for v in (v0, v1)]
    wts = prng.last_weights
    tot_w, tot_r = sum(wts), sum(rec)
    for wgt, rv in zip(wts, rec):
        want = (rv / tot_r) if tot_r > 0 else 0.5
        if abs(wgt / tot_w - want) > 1e-6:
            raise Violation("C20.share_weights", "market choice weights are not proportional to recent traded volume",
                            "%r weights %r recent volumes %r" % (case, wts, rec))
    if tot_r == 0:
        wit.inc("share_zero_volume")
    chosen = (m0, m1)[ci]
    fund = (100, 110)[ci]
    p, r, ph = fcn_reference(chosen, fund, 1, 1, 1, 2.0 ** -7, g, win, None)
    if any(o.market_id != chosen.market_id for o in orders):
        raise Violation("C20.share_market", "a market-share FCN agent submitted orders for a market other than the chosen one", "%r" % (case,))
    check_fcn_orders(orders, chosen, p, r, ph, 0.125, win, chosen.market_id, wit, "market-share case %r" % (case,))
    wit.inc("share_choice_%d" % ci)
    return (ci, tuple(rec))


# ------------------------------------------------------------------------------------------------ MarketMaker


def mk_quote_market(sim, mid, fund, quotes, cls=Market, shares=10, tr=None):
    m = cls(mid, None, sim, "m%d" % mid)
    m.setup({"tickSize": 0.125, "marketPrice": 100.0, "outstandingShares": shares})
    m._is_running = True
    m._update_time(float(fund))
    sim.name2market[m.name] = m
    sim.id2market[mid] = m
    if tr is not None:
        trade(m, mid, tr)
    if quotes == "none":
        pass
    elif quotes == "mo_top":
        m._add_order(Order(9, mid, True, MARKET_ORDER, 1))
        m._add_order(Order(9, mid, True, LIMIT_ORDER, 1, price=99.0))
    elif quotes == "bid_only":
        m._add_order(Order(9, mid, True, LIMIT_ORDER, 1, price=99.0))
    elif quotes == "ask_only":
        m._add_order(Order(9, mid, False, LIMIT_ORDER, 1, price=100.25))
    elif quotes == "low_ask_only":
        m._add_order(Order(9, mid, False, LIMIT_ORDER, 1, price=97.0))
    else:
        b, a = quotes
        m._add_order(Order(9, mid, True, LIMIT_ORDER, 1, price=float(b)))
        m._add_order(Order(9, mid, False, LIMIT_ORDER, 1, price=float(a)))
    return m


def mm_cases(tier):
    Q = ["none", "mo_top", "bid_only", "ask_only", "low_ask_only", (99, 101), (98, 103), (100.5, 100.75)]
    for q0, q1 in itertools.product(Q, repeat=2):
        for fund in (90, 100):
            for spread in (2.0 ** -6, 0.125):
                for ttl in (None, 1, 3):
                    for acc in ((0,), (0, 1)):
                        for tr in (None, 104):
                            yield (q0, q1, fund, spread, ttl, acc, tr)


def mm_fn(case, wit):
    q0, q1, fund, spread, ttl, acc, tr = case
    sim = Sim()
    m0 = mk_quote_market(sim, 0, fund, q0, tr=tr)
    m1 = mk_quote_market(sim, 1, 100, q1)
    a = MarketMakerAgent(5, random.Random(0), sim, "mm")
    st = {"cashAmount": 1, "assetVolume": 1, "targetMarket": "m0", "netInterestSpread": spread}
    if ttl:
        st["orderTimeLength"] = ttl
    a.setup(st, list(acc))
    orders = a.submit_orders([m0, m1])
    for o in orders:
        well_formed(o, a, wit)
    ms = [x for x in (m0, m1) if x.market_id in acc]
    bids = [x.get_best_buy_price() for x in ms if x.get_best_buy_price() is not None]
    asks = [x.get_best_sell_price() for x in ms if x.get_best_sell_price() is not None]
    if bids and asks:
        base = (max(bids) + min(asks)) / 2
    else:
        base = m0.get_market_price()
        wit.inc("mm_base_from_market_price")
    if len(orders) != 2 or orders[0].is_buy == orders[1].is_buy:
        raise Violation("C20.mm_count", "a market maker does not quote exactly one buy and one sell", "%r -> %r" % (case, orders))
    bo = [o for o in orders if o.is_buy][0]
    so = [o for o in orders if not o.is_buy][0]
    if abs((bo.price + so.price) / 2 - base) > 1e-9 or abs((so.price - bo.price) - fund * spread) > 1e-9:
        raise Violation("C20.mm_prices", "market-maker quotes are not symmetric around the base price and separated by fundamental price x spread",
                        "%r: buy %r sell %r base %r fundamental x spread %r" % (case, bo.price, so.price, base, fund * spread))
    for o in orders:
        if not (o.market_id == 0 and o.volume == 1 and o.ttl == (ttl or 2) and o.kind == LIMIT_ORDER):
            raise Violation("C20.mm_order", "a market-maker order has the wrong market, kind, volume or lifetime", "%r %r" % (case, o))
    wit.inc("mm_quotes")
    if acc == (0,) and q1 not in ("none",):
        wit.inc("mm_inaccessible_market_ignored")
    if "mo_top" in (q0, q1):
        wit.inc("mm_market_order_on_top")
    return (bool(bids and asks), acc)


# ------------------------------------------------------------------------------------------------ Arbitrage


def arb_cases(tier):
    for ncomp in (2, 3):
        for prices in itertools.product([98, 100, 102], repeat=ncomp):
            for ip in (97, 99, 99.5, 100, 100.5, 101, 103):
                for thr in (0.5, 1.0):
                    for v in (1, 3):
                        for running in itertools.product([True, False], repeat=2):
                            yield (ncomp, prices, ip, thr, v, running)


def arb_fn(case, wit):
    ncomp, prices, ip, thr, v, running = case
    sim = Sim()
    comps = [mk_quote_market(sim, i, 100, "none", tr=prices[i]) for i in range(ncomp)]
    idx = IndexMarket(ncomp, None, sim, "idx")
    idx.setup({"tickSize": 0.125, "marketPrice": 100.0, "markets": [c.name for c in comps]})
    idx._is_running = True
    idx._update_time(100.0)
    trade(idx, ncomp, ip)
    idx._is_running = running[0]
    comps[0]._is_running = running[1]
    a = ArbitrageAgent(7, random.Random(0), sim, "arb")
    a.setup({"cashAmount": 1, "assetVolume": 1, "orderVolume": v, "orderThresholdPrice": thr, "orderTimeLength": 2}, list(range(ncomp + 1)))
    orders = a.submit_orders(comps + [idx])
    for o in orders:
        well_formed(o, a, wit)
    ci = sum(prices) / ncomp
    gap = ip - ci
    if not all(running) or abs(gap) <= thr:
        if orders:
            raise Violation("C20.arb_acts", "an arbitrage agent acted although the gap does not exceed its threshold or a market is not running",
                            "%r gap %r -> %r" % (case, gap, orders))
        if not all(running):
            wit.inc("arb_not_running")
        elif abs(gap) == thr:
            wit.inc("arb_gap_exactly_threshold")
        else:
            wit.inc("arb_no_action_within_threshold")
        return ("none",)
    io = [o for o in orders if o.market_id == ncomp]
    co = [o for o in orders if o.market_id != ncomp]
    if len(orders) != ncomp + 1 or len(io) != 1:
        raise Violation("C20.arb_basket", "an arbitrage agent did not send one index order and one order per component", "%r -> %r" % (case, orders))
    if io[0].volume != ncomp * v or io[0].is_buy != (ip < ci):
        raise Violation("C20.arb_index_leg", "the index leg is not n x v, buying iff the index price is below the computed index", "%r -> %r" % (case, io[0]))
    if sorted(o.market_id for o in co) != list(range(ncomp)) or not all(o.volume == v and o.is_buy != io[0].is_buy for o in co):
        raise Violation("C20.arb_component_legs", "the component legs are not n orders of v on the opposite side", "%r -> %r" % (case, co))
    if not all(o.kind == LIMIT_ORDER and o.ttl == 2 for o in orders):
        raise Violation("C20.arb_order", "an arbitrage order has the wrong kind or lifetime", "%r" % (case,))
    wit.inc("arb_buy_index" if io[0].is_buy else "arb_sell_index")
    return ("buy" if io[0].is_buy else "sell", ncomp)


def test_agent_cases(tier):
    for u in (2.0 ** -53, 0.25, 0.39999, 0.4, 0.6, 0.79999, 0.8, 1 - 2.0 ** -53):
        for ints in (1, 50, 100):
            for acc in ((0,), (1,), (0, 1), ()):
                yield (u, ints, acc)


def test_agent_fn(case, wit):
    """TestAgent (built-in): one well-formed limit order per accessible market at most, never for an inaccessible one"""
    from pams.agents.test_agent import TestAgent
    u, ints, acc = case
    sim = Sim()
    ms = [mk_quote_market(sim, i, 100, (99, 101)) for i in range(2)]
    a = TestAgent(6, StubRandom(u=u, ints=ints), sim, "t")
    a.setup({"cashAmount": 1000, "assetVolume": 10}, list(acc))
    orders = a.submit_orders(ms)
    for o in orders:
        well_formed(o, a, wit)
        if o.market_id not in acc:
            raise Violation("C20.well_formed", "a built-in agent emitted an order for a market it cannot access", "%r" % (case,))
    per = PyCounter(o.market_id for o in orders)
    if any(v > 1 for v in per.values()):
        raise Violation("C20.test_agent", "TestAgent emitted several orders for one market in one consultation", "%r" % (case,))
    wit.inc("test_agent_cases")
    return (len(orders), acc)


def arb2_cases(tier):
    for p2 in (99, 100, 103):          # price of the 2-component index (components 100, 102 -> computed 101)
        for p3 in (97, 101, 104):      # price of the 3-component index (components 100, 102, 98 -> computed 100)
            for v in (1, 3):
                for order in ("idx2_first", "idx3_first"):
                    for repeat in (1, 2):
                        yield (p2, p3, v, order, repeat)
                    # mixed access: the agent is shown both index markets and may trade only one of them
                    yield (p2, p3, v, order, 1, "only_idx2")
                    yield (p2, p3, v, order, 1, "only_idx3")


def arb2_fn(case, wit):
    """one long-lived arbitrage agent with access to TWO index markets of different sizes (n = 2 and n = 3)"""
    p2, p3, v, order, repeat = case[:5]
    access = case[5] if len(case) > 5 else "all"
    sim = Sim()
    comps = [mk_quote_market(sim, i, 100, "none", tr=p) for i, p in enumerate((100, 102, 98))]
    idxs = []
    for mid, (names, ip) in enumerate(((["m0", "m1"], p2), (["m0", "m1", "m2"], p3)), start=3):
        idx = IndexMarket(mid, None, sim, "idx%d" % mid)
        idx.setup({"tickSize": 0.125, "marketPrice": 100.0, "markets": names})
        idx._is_running = True
        idx._update_time(100.0)
        trade(idx, mid, ip)
        sim.name2market[idx.name] = idx
        sim.id2market[mid] = idx
        idxs.append(idx)
    a = ArbitrageAgent(7, random.Random(0), sim, "arb")
    a.setup({"cashAmount": 1, "assetVolume": 1, "orderVolume": v, "orderThresholdPrice": 0.5, "orderTimeLength": 2},
            {"all": [0, 1, 2, 3, 4], "only_idx2": [0, 1, 2, 3], "only_idx3": [0, 1, 2, 4]}[access])
    markets = comps + (idxs if order == "idx2_first" else idxs[::-1])
    comp_prices = [100.0, 102.0, 98.0]
    for rep in range(repeat):
        if rep == 1:
            # between two consultations in the SAME step a component trades at a new price
            trade(comps[0], 0, 106)
            comp_prices[0] = 106.0
            wit.inc("arb_component_moved_between_consultations")
        orders = a.submit_orders(markets)
        for o in orders:
            well_formed(o, a, wit)
        for idx, ncomp, ci, ip in ((idxs[0], 2, sum(comp_prices[:2]) / 2, p2), (idxs[1], 3, sum(comp_prices) / 3, p3)):
            io = [o for o in orders if o.market_id == idx.market_id]
            if (access == "only_idx2" and ncomp == 3) or (access == "only_idx3" and ncomp == 2):
                if io:
                    raise Violation("C20.arb_inaccessible", "an arbitrage agent submitted an order for an index market it cannot access", "%r index %s" % (case, idx.name))
                wit.inc("arb_index_shown_but_not_accessible")
                continue
            if abs(ip - ci) <= 0.5:
                if io:
                    raise Violation("C20.arb_acts", "an arbitrage agent acted although the gap does not exceed its threshold", "%r index %s" % (case, idx.name))
                continue
            if len(io) != 1 or io[0].volume != ncomp * v or io[0].is_buy != (ip < ci):
                raise Violation("C20.arb_index_leg", "the index leg is not n x v, buying iff the index price is below the computed index",
                                "%r: index with %d components, v=%d -> %r" % (case, ncomp, v, io))
            wit.inc("arb_two_indices_acted")
    return (p2 != 101, p3 != 100, order)


# ------------------------------------------------------------------------------------------------ groups


def group_cases(tier):
    for cls in ("FCNAgent", "MarketShareFCNAgent", "MarketMakerAgent", "ArbitrageAgent", "TestAgent"):
        for variant in ("random_values", "constants", "normal_margin"):
            for us in ((0.125, 0.5, 0.875), (0.875, 0.125, 0.5)):
                if variant == "normal_margin" and "FCN" not in cls:
                    continue
                yield (cls, variant, us)


def group_fn(case, wit):
    """the runner hands ONE settings object to every agent of a group: an agent set up from the shared object must
    come out exactly like a twin set up (same PRNG answers) from a private copy, and the object must stay unchanged"""
    import copy
    from pams.agents import MarketMakerAgent, MarketShareFCNAgent, TestAgent
    cls, variant, us = case
    klass = {"FCNAgent": FCNAgent, "MarketShareFCNAgent": MarketShareFCNAgent, "MarketMakerAgent": MarketMakerAgent,
             "ArbitrageAgent": ArbitrageAgent, "TestAgent": TestAgent}[cls]
    rnd = variant != "constants"
    st = {"cashAmount": [100, 900] if rnd else 500, "assetVolume": [1, 9] if rnd else 5}
    if "FCN" in cls:
        st.update({"fundamentalWeight": {"expon": [1.0]} if rnd else 1.0, "chartWeight": [0.0, 2.0] if rnd else 0.5,
                   "noiseWeight": {"uniform": [0.0, 1.0]} if rnd else 0.25, "noiseScale": 0.001,
                   "timeWindowSize": [3, 60] if rnd else 7, "orderMargin": [0.0, 0.1] if rnd else 0.05})
        if variant == "normal_margin":
            st["marginType"] = "normal"
    elif cls == "MarketMakerAgent":
        st.update({"targetMarket": "m0", "netInterestSpread": [0.01, 0.05] if rnd else 0.02, "orderTimeLength": 3})
    elif cls == "ArbitrageAgent":
        st.update({"orderVolume": 2, "orderThresholdPrice": 1.5, "orderTimeLength": 3})
    sim = Sim()
    m0 = mk_quote_market(sim, 0, 100, "none", tr=100)
    shared = copy.deepcopy(st)
    before = copy.deepcopy(shared)

    def attrs(a):
        return {k: v for k, v in vars(a).items() if isinstance(v, (int, float, str, bool, type(None), dict, list, tuple))
                and k not in ("agent_id", "name")}
    for i, u in enumerate(us):
        a = klass(i, StubRandom(u=u, g=2 * u - 1, ints=int(u * 100)), sim, "a%d" % i)
        a.setup(shared, [0])
        b = klass(i, StubRandom(u=u, g=2 * u - 1, ints=int(u * 100)), sim, "a%d" % i)
        b.setup(copy.deepcopy(st), [0])
        da, db = attrs(a), attrs(b)
        if da != db:
            diff = sorted(k for k in set(da) | set(db) if da.get(k) != db.get(k))
            raise Violation("C20.group_setup", "an agent set up from the settings object it shares with the other agents of its group differs from one set up from a private copy",
                            "%s agent #%d of the group: %s" % (cls, i, ", ".join("%s=%r (private copy: %r)" % (k, da.get(k), db.get(k)) for k in diff[:4])))
        if shared != before:
            raise Violation("C20.group_setup", "setting up an agent modified the settings object shared by its group",
                            "%s agent #%d: %r" % (cls, i, {k: shared.get(k) for k in set(shared) | set(before) if shared.get(k) != before.get(k)}))
        wit.inc("group_member_setups")
    return (cls, variant)


GRIDS = {"fcn_parameters_reassigned": fcn_reassign_fn, "group_setup": group_fn, "test_agent": test_agent_fn, "arbitrage_two_indices": arb2_fn, "fcn_long_lived_agent": fcn_persistent_fn, "fcn": fcn_fn, "market_share_fcn": share_fn, "market_maker": mm_fn, "arbitrage": arb_fn}


def run(tier, seed):
    res = common.Result("C20", tier, seed)
    run_grid(res, "fcn", list(fcn_cases(tier)), fcn_fn, seed)
    run_grid(res, "fcn_long_lived_agent", list(fcn_persistent_cases(tier)), fcn_persistent_fn, seed)
    run_grid(res, "fcn_parameters_reassigned", list(fcn_reassign_cases(tier)), fcn_reassign_fn, seed)
    run_grid(res, "market_share_fcn", list(share_cases(tier)), share_fn, seed)
    run_grid(res, "market_maker", list(mm_cases(tier)), mm_fn, seed)
    run_grid(res, "arbitrage", list(arb_cases(tier)), arb_fn, seed)
    run_grid(res, "arbitrage_two_indices", list(arb2_cases(tier)), arb2_fn, seed)
    run_grid(res, "test_agent", list(test_agent_cases(tier)), test_agent_fn, seed)
    run_grid(res, "group_setup", list(group_cases(tier)), group_fn, seed)
    cov = res.coverage
    cov["evaluations"] += cov["witness_classes"].get("fcn_cases", 0) + cov["witness_classes"].get("fcn_persistent_cases", 0)
    cov["grids"]["fcn"]["inner_cases_per_market_state"] = len(WEIGHTS) * len(INNER)
    cov["exhaustive"] = True
    cov["rule"] = RULE
    res.assumptions = ["admissible configurations only: an arbitrage agent can access its index market and all components; FCN windows >= 1",
                       "fixed-margin mode for the FCN price rule (as the property states); knife-edge cases where the expected price equals the market price up to 1e-12 relative but not exactly are skipped"]
    res.require_witness(WIT)
    return res


def replay(payload):
    def tup(x):
        return tuple(tup(y) for y in x) if isinstance(x, list) else x
    case = tup(payload["case"])
    print("grid %s case %r" % (payload["grid"], case))
    try:
        GRIDS[payload["grid"]](case, Counter())
    except Violation as v:
        print("  ==> VIOLATION %s: %s" % (v.monitor, v.msg))
        print("VIOLATION property=C20 replay=(this file)")
        return 1
    print("replay: no violation on this tree")
    return 0
