"""C08: market price, quotes and step statistics are what book and fills imply (Engine M)."""
from ._m import run_generic, replay_generic
from ..monitors_m import C08Mon

WIT = ["fills", "book_event_while_not_running", "cancel_event", "tick_running", "tick_not_running", "market_order_on_top", "price_from_mid", "depth_with_market_order_bucket", "vwap_over_several_steps"]
RULE = ("every operation history over the alphabet (clock step, limit/market submissions with and without time-to-live, "
        "cancels of live and dead orders, matching round, running switch) up to the stated depth from the empty book and "
        "from each seed book, in continuous and in batch mode, executed on a real Market; a reference price state machine fed with the implementation's fills predicts market/mid/last price, best quotes, depth and per-step statistics after every sub-step; "
        "distinct = canonical market states")


def factory():
    return [C08Mon()]


def run(tier, seed):
    return run_generic("C08", tier, seed, factory, WIT, RULE, heap_variants=(("B", "C", "D") if tier == "quick" else ("A", "B", "C", "D")))


def replay(payload):
    return replay_generic(payload, factory)
