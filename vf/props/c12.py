"""C12: fundamentals -- positive geometric walk with configured drift, volatility, correlation -- Engine F."""
import itertools
import math
import random

import numpy as np

from .. import common
from ..common import Violation, Counter
from ..enum_f import run_grid

common.import_pams()
from pams.fundamentals import Fundamentals  # noqa: E402
from pams.market import Market  # noqa: E402
from pams.simulator import Simulator  # noqa: E402

RULE = ("(transform) every parameter set with n <= 3 markets over volatility {0,1/8,1/4,1/2} x drift {-2^-6,0,2^-7} x pairwise "
        "correlation {-1/2,-1/4,0,1/2,3/4} (positive-definite only) with the normal source replaced by a stub: z = 0, every basis "
        "vector, and all z in {-1,0,1}^n; (history) breadth-first search over sequences of clock advance, drift/volatility/"
        "correlation changes and shocks on a real Fundamentals object driving real Markets, generation chunk 3 and 100; "
        "(runner) every two-market configuration over {marketPrice, fundamentalPrice, both, both through extends} x drift x volatility x "
        "pairwise correlation (either name order) run through the real runner and compared, for the same noise, with a generator built "
        "by hand from the configuration; distinct = parameter sets / canonical history states")
WIT = ["selection_cases", "selection_strided_range", "correlation_given_in_reverse_order", "zero_noise_path", "basis_probe", "affine_probe", "correlated_pair", "zero_vol_market_ignores_z", "hist_shock",
       "hist_param_change", "hist_advance_across_chunk", "hist_past_values_compared", "hist_continuation_checked", "hist_volatility_changed_between_nonzero_values", "hist_joint_noise_vector_two_volatile_markets", "late_start_cases", "runner_configurations", "runner_correlated_pair"]
VOL = [0, 0.125, 0.25, 0.5]
DR = [-2.0 ** -6, 0, 2.0 ** -7]
CO = [-0.5, -0.25, 0, 0.5, 0.75]


class Stub:
    """stands in for the instance's numpy Generator: standard_normal(size) returns explorer-chosen arrays"""

    def __init__(self, fn):
        self.fn = fn
        self.calls = []

    def standard_normal(self, size=None):
        a = self.fn(size, len(self.calls))
        self.calls.append(a)
        return a

    def __getattr__(self, name):
        raise common.HarnessError("normal source method %s not owned by the explorer" % name)


def mk(vols, drifts, corr, init, zfun, chunk=4):
    f = Fundamentals(prng=random.Random(0))
    f._generate_chunk_size = chunk
    f._np_prng = Stub(zfun)
    for i, (v, d) in enumerate(zip(vols, drifts)):
        f.add_market(i, init[i] if isinstance(init, (list, tuple)) else init, d, v)
    for (i, j), c in corr.items():
        f.set_correlation(i, j, c)
    return f


def transform_cases(nmax):
    for nm in range(1, nmax + 1):
        for vols in itertools.product(VOL, repeat=nm):
            drs = itertools.product(DR, repeat=nm) if nm < 3 else [tuple(DR[(i + k) % 3] for i in range(nm)) for k in range(3)]
            for drifts in drs:
                pairs = [(i, j) for i in range(nm) for j in range(i + 1, nm) if vols[i] > 0 and vols[j] > 0]
                for cs in itertools.product(CO, repeat=len(pairs)):
                    corr = tuple((p, c) for p, c in zip(pairs, cs) if c != 0)
                    C = np.eye(nm)
                    for (i, j), c in corr:
                        C[i, j] = C[j, i] = c
                    if np.linalg.eigvalsh(C).min() <= 1e-9:
                        continue
                    for init in ((100.0, 50.0, 100.0), ):
                        yield (vols, drifts, corr, init[:nm], False)
                        if corr:
                            # the same correlations configured with the later-registered market first
                            yield (vols, drifts, corr, init[:nm], True)


def late_start_cases():
    for n in (2, 3):
        for starts in itertools.product((0, 2, 5), repeat=n):
            if 0 not in starts:
                continue  # a generator none of whose markets starts at 0 is outside the property (and outside what the runner builds)
            # n = 3 covers every registration order of two different late starts (later one first and last)
            for vols in itertools.product((0.0, 0.25), repeat=n):
                for chunk in (3, 100):
                    yield (starts, vols, chunk)


def late_start_fn(case, wit):
    """markets registered with a later start: the initial value holds up to the start, the walk begins there"""
    starts, vols, chunk = case
    drifts = (2.0 ** -7, -2.0 ** -6, 2.0 ** -5)
    f = Fundamentals(prng=random.Random(0))
    f._generate_chunk_size = chunk
    f._np_prng = Stub(lambda size, n: np.zeros(size))
    for i in range(len(starts)):
        f.add_market(i, 100.0 + 50 * i, drifts[i], vols[i], start_at=starts[i])
    T = 9
    for i in range(len(starts)):
        for t in list(range(T + 1)) + [T, 3, 0]:
            got = f.get_fundamental_price(i, t)
            want = (100.0 + 50 * i) * math.exp(drifts[i] * max(0, t - starts[i]))
            if abs(got - want) > 1e-12 * want * max(1, t) or not got > 0:
                raise Violation("C12.late_start", "a market registered with a later start does not hold its initial value until the start and follow initial x exp(drift x (t - start)) afterwards (zero noise)",
                                "starts %s vols %s chunk %s: market %d t=%d got %r expected %r" % (starts, vols, chunk, i, t, got, want))
    # a drift change on each market in turn, at a time before / at / after its start, AFTER the whole path has been read:
    # values up to the change time stay, later ones follow the new drift from the change time (or from the start, if later)
    for i in range(len(starts)):
        for tc in (0, 1, 3, 6):
            g = Fundamentals(prng=random.Random(0))
            g._generate_chunk_size = chunk
            g._np_prng = Stub(lambda size, n: np.zeros(size))
            for k in range(len(starts)):
                g.add_market(k, 100.0 + 50 * k, drifts[k], vols[k], start_at=starts[k])
            for k in range(len(starts)):
                g.get_fundamental_price(k, T)
            d2 = -2.0 ** -4
            g.change_drift(i, d2, time=tc)
            for k in range(len(starts)):
                for t in list(range(T + 1)) + [2, 0]:
                    got = g.get_fundamental_price(k, t)
                    acc = 0.0
                    for u in range(starts[k], t):
                        acc += d2 if (k == i and u >= tc) else drifts[k]
                    want = (100.0 + 50 * k) * math.exp(acc)
                    if abs(got - want) > 1e-12 * want * max(1, t) or not got > 0:
                        raise Violation("C12.late_start", "after a drift change on a market registered with a later start the path is not: initial value until the start, then the drift in force at each step (zero noise)",
                                        "starts %s vols %s chunk %s: drift of market %d changed at time %d; market %d t=%d got %r expected %r" % (starts, vols, chunk, i, tc, k, t, got, want))
            wit.inc("late_start_drift_changes")
    wit.inc("late_start_cases")
    return (starts, vols)


def transform_fn(case, wit):
    vols, drifts, corr, init, rev = case
    nm = len(vols)
    corrd = {((j, i) if rev else (i, j)): c for (i, j), c in corr}
    if rev:
        wit.inc("correlation_given_in_reverse_order")
    C = np.eye(nm)
    for (i, j), c in corr:
        C[i, j] = C[j, i] = c
    vol_idx = [i for i in range(nm) if vols[i] > 0]
    T = 3

    def lr(zfun):
        f = mk(vols, drifts, corrd, list(init), zfun)
        P = [[f.get_fundamental_price(i, t) for t in range(T + 1)] for i in range(nm)]
        for i, row in enumerate(P):
            if row[0] != init[i]:
                raise Violation("C12.initial", "the fundamental price at time 0 is not the configured initial value", "%r" % (case,))
            for x in row:
                if not x > 0:
                    raise Violation("C12.positive", "a fundamental price is not strictly positive", "%r" % (case,))
        return np.array([[math.log(P[i][t + 1] / P[i][t]) for t in range(T)] for i in range(nm)]), P

    base, P0 = lr(lambda s, n: np.zeros(s))
    for i in range(nm):
        for t in range(T + 1):
            want = init[i] * math.exp(drifts[i] * t)
            if abs(P0[i][t] - want) > 1e-12 * want * max(1, t):
                raise Violation("C12.zero_noise_path", "with zero noise the path is not initial x exp(drift x t)",
                                "market %d t=%d got %r expected %r; %r" % (i, t, P0[i][t], want, case))
    wit.inc("zero_noise_path")
    A = np.zeros((nm, len(vol_idx)))
    for k, j in enumerate(vol_idx):
        def z(s, n, k=k):
            a = np.zeros(s)
            a[k, :] = 1.0
            return a
        r, _ = lr(z)
        A[:, k] = r[:, 0] - np.array(drifts)
        wit.inc("basis_probe")
    cov = np.array([[vols[i] * vols[j] * C[i, j] for j in range(nm)] for i in range(nm)])
    if not np.allclose(A @ A.T, cov, atol=1e-12):
        raise Violation("C12.covariance", "the log-return transform A does not satisfy A A^T = diag(vol) corr diag(vol)",
                        "%r: A A^T = %s, expected %s" % (case, (A @ A.T).tolist(), cov.tolist()))
    for i in range(nm):
        if vols[i] == 0 and np.abs(A[i]).max(initial=0) > 1e-12:
            raise Violation("C12.zero_vol", "a zero-volatility market responds to the noise", "%r" % (case,))
        if vols[i] == 0:
            wit.inc("zero_vol_market_ignores_z")
    if corr:
        wit.inc("correlated_pair")
    for zv in itertools.product([-1, 0, 1], repeat=len(vol_idx)):
        def z(s, n, zv=zv):
            a = np.zeros(s)
            for k, v in enumerate(zv):
                a[k, :] = v
            return a
        r, _ = lr(z)
        if not np.allclose(r[:, 0], np.array(drifts) + A @ np.array(zv, dtype=float), atol=1e-12):
            raise Violation("C12.affine", "log-returns are not drift + A z", "%r z=%r" % (case, zv))
        wit.inc("affine_probe")
    return (vols, tuple(c for _, c in corr), rev)


# ------------------------------------------------------------------------------------------------ history BFS


class Sim(Simulator):
    """a real simulator object whose generator is replaced by the one under test"""

    def __init__(self):
        super().__init__(prng=random.Random(0))


def zpattern(size, call_no):
    a = np.zeros(size)
    for k in range(size[0]):
        for c in range(size[1]):
            a[k, c] = ((call_no * 7 + c * 3 + k * 5) % 5 - 2) / 2.0
    return a


H_OPS = [("adv",)]
for _i in (0, 1):
    H_OPS += [("drift", _i, -2.0 ** -6), ("drift", _i, 2.0 ** -7), ("vol", _i, 0.0), ("vol", _i, 0.25), ("vol", _i, 0.5), ("shock", _i, 0.5),
              ("shock", _i, 1.5)]
H_OPS += [("corr", 0, 1, 0.5), ("corr", 1, 0, -0.25), ("uncorr", 0, 1), ("uncorr", 1, 0), ("shock", 2, 2.0)]
# two changes at the same time with no read of any price in between (two shocks of one step; a parameter change, then a shock)
H_OPS += [("both", ("shock", 0, 0.5), ("shock", 1, 1.5)), ("both", ("drift", 1, -2.0 ** -6), ("shock", 1, 0.5)),
          ("both", ("vol", 0, 0.5), ("shock", 2, 2.0)), ("both", ("shock", 1, 0.5), ("shock", 1, 1.5))]


class HWorld:
    def __init__(self, chunk):
        self.sim = Sim()
        self.f = mk([0.25, 0.0, 0.0], [0.0, 2.0 ** -7, 0.0], {}, [100.0, 50.0, 100.0], zpattern, chunk=chunk)
        self.sim.fundamentals = self.f
        self.ms = []
        for i in range(3):
            m = Market(i, None, self.sim, "m%d" % i)
            m.setup({"tickSize": 1.0, "marketPrice": 100.0})
            self.ms.append(m)
        # the harness' own ledger of the parameters in force (never read back from the generator)
        self.ref_drifts = [0.0, 2.0 ** -7, 0.0]
        self.ref_vols = [0.25, 0.0, 0.0]
        self.ref_corr = {}
        self.t = -1
        self.hist = [[] for _ in range(3)]  # reference copy of every price up to the current time
        self.wit = Counter()
        self.chunk = chunk
        self.adv()

    def adv(self):
        self.t += 1
        for i, m in enumerate(self.ms):
            p = self.f.get_fundamental_price(i, self.t)
            m._update_time(p)
            self.hist[i].append(p)
        if self.t % self.chunk == 0 and self.t > 0:
            self.wit.inc("hist_advance_across_chunk")

    def params(self):
        return (list(self.ref_drifts), list(self.ref_vols), dict(self.ref_corr))

    def apply(self, op):
        if op[0] == "both":
            for sub in op[1:]:
                if self._apply1(sub) is False:
                    return False
            self.wit.inc("hist_two_changes_without_a_read_in_between")
            self.check(op)
            return True
        if self._apply1(op) is False:
            return False
        self.check(op)
        return True

    def _apply1(self, op):
        f, t = self.f, self.t
        k = op[0]
        if k == "adv":
            self.adv()
        elif k == "drift":
            f.change_drift(op[1], op[2], time=t)
            self.ref_drifts[op[1]] = op[2]
            self.wit.inc("hist_param_change")
        elif k == "vol":
            if 0.0 != self.ref_vols[op[1]] != op[2] != 0.0:
                self.wit.inc("hist_volatility_changed_between_nonzero_values")
            if self.ref_vols[op[1]] == 0.0 and op[2] != 0.0 and any(op[1] in pair for pair in self.ref_corr):
                self.wit.inc("hist_volatility_restored_on_a_correlated_market")
            f.change_volatility(op[1], op[2], time=t)
            self.ref_vols[op[1]] = op[2]
            self.wit.inc("hist_param_change")
        elif k == "corr":
            f.set_correlation(op[1], op[2], op[3], time=t)
            self.ref_corr.pop((op[2], op[1]), None)
            self.ref_corr[(op[1], op[2])] = op[3]
            self.wit.inc("hist_param_change")
        elif k == "uncorr":
            if (op[1], op[2]) not in self.ref_corr and (op[2], op[1]) not in self.ref_corr:
                return False
            f.remove_correlation(op[1], op[2], time=t)
            self.ref_corr.pop((op[1], op[2]), None)
            self.ref_corr.pop((op[2], op[1]), None)
        elif k == "shock":
            self.ms[op[1]].change_fundamental_price(op[2])
            self.hist[op[1]][t] = self.hist[op[1]][t] * op[2]
            self.wit.inc("hist_shock")
        return True

    def check(self, op):
        f, t = self.f, self.t
        drifts, vols, corr = self.params()
        horizon = t + 4
        series = [f.get_fundamental_prices(i, range(0, horizon + 1)) for i in range(3)]
        for i in range(3):
            for s in range(0, t + 1):
                want = self.hist[i][s]
                if abs(series[i][s] - want) > 1e-12 * want:
                    raise Violation("C12.past_changed", "a parameter change, shock or clock advance at time t altered a value at a time <= t (other than the shocked value)",
                                    "after %r at t=%d: market %d time %d was %r now %r" % (op, t, i, s, want, series[i][s]))
                if abs(self.ms[i].get_fundamental_price(s) - want) > 1e-12 * want:
                    raise Violation("C12.market_record", "a market's recorded fundamental price differs from the generated one",
                                    "market %d time %d" % (i, s))
                self.wit.inc("hist_past_values_compared")
            for s in range(0, horizon + 1):
                if not series[i][s] > 0:
                    raise Violation("C12.positive", "a fundamental price is not strictly positive", "market %d time %d" % (i, s))
        # continuation from the (changed) level with the current parameters
        vol_idx = [i for i in range(3) if vols[i] != 0.0]
        C = np.eye(len(vol_idx))
        for (a, b), c in corr.items():
            if a in vol_idx and b in vol_idx:
                C[vol_idx.index(a), vol_idx.index(b)] = C[vol_idx.index(b), vol_idx.index(a)] = c
        v = np.array([vols[i] for i in vol_idx])
        Lm = np.linalg.cholesky(v * C * v.reshape(-1, 1)) if vol_idx else np.zeros((0, 0))
        cols = []
        for a in f._np_prng.calls[-3:]:
            if a.shape[0] == len(vol_idx):
                cols += [a[:, c] for c in range(a.shape[1])]
        for s in range(t, horizon):
            rs = [math.log(series[i][s + 1] / series[i][s]) - drifts[i] for i in range(3)]
            for i in range(3):
                if vols[i] == 0.0 and abs(rs[i]) > 1e-12:
                    raise Violation("C12.continuation", "later values do not continue from the value at t with the current drift (zero-volatility market)",
                                    "after %r at t=%d: market %d step %d->%d log-return %r, drift %r" % (op, t, i, s, s + 1, rs[i] + drifts[i], drifts[i]))
            if vol_idx:
                # ONE drawn noise vector must explain the returns of all volatile markets of this step together
                rv = np.array([rs[i] for i in vol_idx])
                if not any(np.abs(rv - Lm @ z).max() < 1e-9 for z in cols):
                    raise Violation("C12.continuation_noise", "the log-returns of one step are not drift + (Cholesky factor of the current covariance) x one noise vector that was drawn (jointly for all volatile markets)",
                                    "after %r at t=%d: step %d->%d, volatile markets %s" % (op, t, s, s + 1, vol_idx))
                if len(vol_idx) >= 2:
                    self.wit.inc("hist_joint_noise_vector_two_volatile_markets")
            self.wit.inc("hist_continuation_checked")

    def canon(self):
        f = self.f
        drifts, vols, corr = self.params()
        return (self.t, tuple(drifts), tuple(vols), tuple(sorted(corr.items())),
                tuple(tuple(round(x, 9) for x in h) for h in self.hist), getattr(f, "_generated_until", None) - self.t,
                len(f._np_prng.calls) % 5)


_HSPEC = None


def hbuild(chunk, hist):
    w = HWorld(chunk)
    for i in hist:
        if w.apply(H_OPS[i]) is False:
            return None
    return w


def _hexpand(chunk_of_hists):
    chunk = _HSPEC
    out, viol, wit, n = [], [], Counter(), 0
    for h in chunk_of_hists:
        for oi in range(len(H_OPS)):
            nh = h + (oi,)
            try:
                w = hbuild(chunk, nh)
            except Violation as v:
                n += 1
                viol.append((v.monitor, v.msg, nh))
                continue
            except Exception as e:  # noqa
                import traceback
                tb = traceback.extract_tb(e.__traceback__)
                if not (tb and tb[-1].filename.startswith(common.REPO + "/")):
                    raise
                n += 1
                viol.append(("C12.api_raised", "an operation of the generator's API on a state reached by valid operations raised | %s: %s at %s:%d" % (
                    type(e).__name__, str(e)[:60], tb[-1].filename[len(common.REPO) + 1:], tb[-1].lineno), nh))
                continue
            if w is None:
                continue
            n += 1
            wit.merge(w.wit)
            out.append((common.digest(w.canon()), nh))
    return out, viol, wit, n


def history_search(res, chunk, depth, seed):
    global _HSPEC
    _HSPEC = chunk
    w0 = hbuild(chunk, ())
    seen = {common.digest(w0.canon())}
    frontier = [()]
    trans = 0
    wit = Counter()
    for d in range(depth):
        nch = max(1, min(len(frontier), common.NPROC * 4))
        parts = [frontier[i::nch] for i in range(nch)]
        nxt = []
        for out, viol, wt, n in common.pool_map(_hexpand, common.rotate(parts, seed)):
            trans += n
            wit.merge(wt)
            for mon, msg, nh in viol:
                sig = "%s:%s" % (mon, msg.split(" | ")[0].replace(" ", "_")[:60])
                res.add_violation(mon, msg, sig, dict(engine="F", grid="history", chunk=chunk, history=[list(H_OPS[i]) for i in nh]))
            for dg, nh in sorted(out, key=lambda x: x[1]):
                if dg not in seen:
                    seen.add(dg)
                    nxt.append(nh)
        frontier = nxt
    cov = res.coverage
    cov["states"] = cov.get("states", 0) + len(seen)
    cov["transitions"] = cov.get("transitions", 0) + trans
    cov["traces_validated_against_impl"] = cov.get("traces_validated_against_impl", 0) + len(frontier)
    cov.setdefault("history_search", []).append(dict(generation_chunk=chunk, depth=depth, states=len(seen), transitions=trans, ops=len(H_OPS)))
    cov.setdefault("samples", []).append(dict(grid="history", chunk=chunk, history=[list(H_OPS[i]) for i in (frontier[len(frontier) // 2] if frontier else ())]))
    w = cov.setdefault("witness_classes", {})
    for k, v in wit.items():
        w[k] = w.get(k, 0) + v


# ------------------------------------------------------------------------------------------------
# the runner's wiring of the configuration into the generator


def runner_cases():
    specs = ("mp", "fp", "both", "both_ext")
    per_market = [(ps, d, v) for ps in specs for d in (0.0, 2.0 ** -7) for v in (0.0, 0.125)]
    for a in per_market:
        for b in per_market:
            corrs = [None]
            if a[2] > 0 and b[2] > 0:
                corrs += [("A", "B", 0.5), ("B", "A", -0.25)]
            for c in corrs:
                yield (a, b, c)


def runner_fn(case, wit):
    """a configuration run through the real runner must produce the fundamental paths that a generator built by hand
    from the same configuration produces from the same noise (the generator itself is covered by the other grids)"""
    from pams.runners.sequential import SequentialRunner
    a, b, corr = case
    cfg = {"simulation": {"markets": ["A", "B"], "agents": ["F"],
                          "sessions": [{"sessionName": 0, "iterationSteps": 4, "withOrderPlacement": True, "withOrderExecution": True,
                                        "withPrint": False, "maxNormalOrders": 1}]},
           "F": {"class": "FCNAgent", "numAgents": 1, "markets": ["A", "B"], "cashAmount": 10000, "assetVolume": 50,
                 "fundamentalWeight": 1.0, "chartWeight": 0.0, "noiseWeight": 0.0, "noiseScale": 0.001, "timeWindowSize": 3, "orderMargin": 0.0}}
    expect = {}
    for name, (ps, d, v), mp, fp in (("A", a, 300.0, 500.0), ("B", b, 120.0, 80.0)):
        blk = {"class": "Market", "tickSize": 0.5}
        if ps in ("mp", "both"):
            blk["marketPrice"] = mp
        if ps in ("fp", "both"):
            blk["fundamentalPrice"] = fp
        if ps == "both_ext":
            cfg[name + "Base"] = {"class": "Market", "tickSize": 0.5, "marketPrice": mp}
            blk = {"extends": name + "Base", "fundamentalPrice": fp}
        if d:
            blk["fundamentalDrift"] = d
        if v:
            blk["fundamentalVolatility"] = v
        cfg[name] = blk
        expect[name] = dict(init=(fp if ps != "mp" else mp), price0=(mp if ps != "fp" else fp), drift=d, vol=v)
    if corr is not None:
        cfg["simulation"]["fundamentalCorrelations"] = {"pairwise": [list(corr)]}
    r = SequentialRunner(cfg, random.Random(1), None)
    r._setup()
    sim = r.simulator
    ref = Fundamentals(prng=random.Random(0))
    ids = {}
    for name in ("A", "B"):
        m = sim.name2market[name]
        ids[name] = m.market_id
        ref.add_market(m.market_id, expect[name]["init"], expect[name]["drift"], expect[name]["vol"])
    if corr is not None:
        ref.set_correlation(ids[corr[0]], ids[corr[1]], corr[2])
    sim.fundamentals._np_prng = np.random.default_rng(20240)
    ref._np_prng = np.random.default_rng(20240)
    r._run()
    for name in ("A", "B"):
        m = sim.name2market[name]
        e = expect[name]
        got0 = m.get_market_price(0)
        if got0 != e["price0"]:
            raise Violation("C12.runner_market_price", "a market's initial market price is not the configured marketPrice (fundamentalPrice when absent)",
                            "%s: got %r expected %r (%s)" % (name, got0, e["price0"], case))
        for t in range(0, 5):
            got, want = m.get_fundamental_price(t), ref.get_fundamental_price(m.market_id, t)
            if got != want:
                raise Violation("C12.runner_wiring", "a configuration run through the runner does not give the fundamental path that the configured initial value, drift, volatility and correlation give for the same noise",
                                "market %s t=%d: got %r expected %r | %s" % (name, t, got, want, case))
            if e["vol"] == 0.0:
                w_ = e["init"] * math.exp(e["drift"] * t)
                if abs(got - w_) > 1e-12 * w_:
                    raise Violation("C12.runner_wiring", "a zero-volatility market configured through the runner does not follow initial x exp(drift x t)",
                                    "market %s t=%d: got %r expected %r | %s" % (name, t, got, w_, case))
    wit.inc("runner_configurations")
    if corr is not None:
        wit.inc("runner_correlated_pair")
    return (a[0], b[0], a[1:], b[1:], corr is not None)


# ------------------------------------------------------------------------------------------------
# the list getter read for every kind of selection of times


def selection_cases():
    for chunk in (3, 100):
        for T in (0, 1, 5, 7, 250):
            for first in ("list_getter", "single_getter"):
                yield (chunk, T, first)


def selection_fn(case, wit):
    """the generator's list getter for sparse, newest-first, repeated, strided (as list, tuple, range, numpy array) selections
    of times gives, element for element, the value of the single getter -- whichever of the two is the first to ask for
    times not generated yet"""
    chunk, T, first = case
    sels = [[0, T], [T, 0], [T, T], list(range(T + 1)), range(T + 1), range(0, T + 1, 2), range(0, T + 1, 50), range(T, -1, -1), range(T, -1, -3),
            tuple(range(0, T + 1, 3)), np.arange(0, T + 1, 2), range(T, T + 1), [T + 7, 0, T + 2]]
    for si, sel in enumerate(sels):
        f = mk([0.25, 0.0], [2.0 ** -7, -2.0 ** -6], {}, [100.0, 50.0], zpattern, chunk=chunk)
        ts = [int(x) for x in sel]
        for mid in (0, 1):
            if first == "single_getter":
                want = [f.get_fundamental_price(mid, t) for t in ts]
                got = f.get_fundamental_prices(mid, sel)
            else:
                got = f.get_fundamental_prices(mid, sel)
                want = [f.get_fundamental_price(mid, t) for t in ts]
            if len(got) != len(want) or any(a != b for a, b in zip(got, want)):
                raise Violation("C12.selection", "the generator's list getter, read for a selection of times, does not give the values of those times",
                                "market %d, times %r (generation chunk %d): %d values %r..., expected %d values %r..." % (
                                    mid, sel, chunk, len(got), list(got)[:4], len(want), want[:4]))
            if mid == 1:
                # the zero-volatility market: exactly initial x exp(drift t)
                for t, v in zip(ts, got):
                    if abs(v - 50.0 * math.exp(-2.0 ** -6 * t)) > 1e-9 * 50.0:
                        raise Violation("C12.zero_vol_path", "with zero volatility the value read for time t is not initial x exp(drift t)",
                                        "times %r: t=%d value %r" % (sel, t, v))
        if isinstance(sel, range) and sel.step != 1:
            wit.inc("selection_strided_range")
        wit.inc("selection_cases")
    return (chunk, T > chunk, first)


def run(tier, seed):
    res = common.Result("C12", tier, seed)
    run_grid(res, "runner_wiring", list(runner_cases()), runner_fn, seed)
    run_grid(res, "transform", list(transform_cases(3 if tier == "quick" else 3)), transform_fn, seed)
    run_grid(res, "late_start", list(late_start_cases()), late_start_fn, seed)
    run_grid(res, "selections_of_times", list(selection_cases()), selection_fn, seed)
    for chunk, dq, dt in ((3, 5, 7), (100, 4, 6)):
        history_search(res, chunk, dq if tier == "quick" else dt, seed)
    res.coverage["exhaustive"] = True
    res.coverage["rule"] = RULE
    res.assumptions = ["NumPy's standard_normal is i.i.d. N(0,1): mean, standard deviation and correlation of log-returns then follow from drift + A z with A A^T = diag(vol) corr diag(vol); no statistics are sampled",
                       "the instance's normal source (_np_prng) and generation chunk size are replaced through the instance attributes"]
    res.require_witness(WIT)
    return res


def replay(payload):
    if payload.get("grid") == "runner_wiring":
        def tp(x):
            return tuple(tp(y) for y in x) if isinstance(x, list) else x
        try:
            runner_fn(tp(payload["case"]), Counter())
        except Violation as v:
            print("  ==> VIOLATION %s: %s" % (v.monitor, v.msg))
            print("VIOLATION property=C12 replay=(this file)")
            return 1
        print("replay: no violation on this tree")
        return 0
    if payload.get("grid") == "selections_of_times":
        try:
            selection_fn(tuple(payload["case"]), Counter())
        except Violation as v:
            print("  ==> VIOLATION %s: %s" % (v.monitor, v.msg))
            print("VIOLATION property=C12 replay=(this file)")
            return 1
        print("replay: no violation on this tree")
        return 0
    if payload.get("grid") == "late_start":
        c = payload["case"]
        try:
            late_start_fn((tuple(c[0]), tuple(c[1]), c[2]), Counter())
        except Violation as v:
            print("  ==> VIOLATION %s: %s" % (v.monitor, v.msg))
            print("VIOLATION property=C12 replay=(this file)")
            return 1
        print("replay: no violation on this tree")
        return 0
    if payload.get("grid") == "history":
        w = HWorld(payload["chunk"])
        try:
            for op in payload["history"]:
                print("  op", op)
                w.apply(tuple(op))
        except Violation as v:
            print("  ==> VIOLATION %s: %s" % (v.monitor, v.msg))
            print("VIOLATION property=C12 replay=(this file)")
            return 1
        print("replay: no violation on this tree")
        return 0

    def tup(x):
        return tuple(tup(y) for y in x) if isinstance(x, list) else x
    try:
        transform_fn(tup(payload["case"]), Counter())
    except Violation as v:
        print("  ==> VIOLATION %s: %s" % (v.monitor, v.msg))
        print("VIOLATION property=C12 replay=(this file)")
        return 1
    print("replay: no violation on this tree")
    return 0
