"""C03: a matching round clears every executable pair and never fails (Engine M)."""
from ._m import run_generic, replay_generic
from ..monitors_m import C03Mon

WIT = ["round_with_market_orders_on_both_sides", "round_with_market_orders_on_one_side",
       "round_clearing_several_pairs", "post_round_two_sided_book", "post_round_market_orders_facing",
       "round_without_fill"]
RULE = ("every operation history over the alphabet (clock step, limit/market submissions, cancels of live and dead "
        "orders, matching round, running switch) up to the stated depth from the empty book and from each seed book, in "
        "continuous and in batch mode, executed on a real Market; after every matching round the post-condition of the "
        "property is evaluated and any exception or hang of the round is a violation; distinct = canonical market states")


def factory():
    return [C03Mon()]


def run(tier, seed):
    return run_generic("C03", tier, seed, factory, WIT, RULE)


def replay(payload):
    return replay_generic(payload, factory)
