"""C03: a matching round clears every executable pair and never fails (Engine M)."""
from ._m import run_generic, replay_generic
from ..monitors_m import C03Mon
from ..common import Violation

WIT = ["round_with_market_orders_on_both_sides", "round_with_market_orders_on_one_side",
       "round_clearing_several_pairs", "post_round_two_sided_book", "post_round_market_orders_facing",
       "round_without_fill"]
RULE = ("every operation history over the alphabet (clock step, limit/market submissions, cancels of live and dead "
        "orders, matching round, running switch) up to the stated depth from the empty book and from each seed book, in "
        "continuous and in batch mode, executed on a real Market; after every matching round the post-condition of the "
        "property is evaluated and any exception or hang of the round is a violation; plus the deep one-sided book grids (every arrival order of 5-7 levels x cancels x sweeps; every heap layout of 9-10 (thorough: 11) levels x a sweep of k levels followed by one round per remaining level); distinct = canonical market states")


def factory():
    return [C03Mon()]


TICKS = [0.1, 0.01, 0.001, 0.00001, 0.5, 1.0, 3.0]


def locked_cases(tier):
    n = 400 if tier == "quick" else 2000
    for tick in TICKS:
        for base in (0, 30000000 if tick == 0.00001 else 0):
            for k0 in range(1, n + 1, 50):
                yield (tick, base, k0, min(n + 1, k0 + 50))


def locked_fn(case, wit):
    """for every grid level k: a buy submitted half a tick above and a sell half a tick below the level are both
    accepted AT the level (bid == ask): a round must match them -- in continuous mode and after a batch build-up;
    also bid one level above the ask, and a market order against a single limit order"""
    from ..explore_m import World
    tick, base, k0, k1 = case
    for k in range(k0, k1):
        lvl = base + k
        for variant in ("cont", "batch", "cross1", "market"):
            w = World("cont" if variant == "cont" else "free", factory(), tick=tick)
            try:
                if variant == "market":
                    w.apply(("L", False, lvl * tick, 1, None))
                    w.apply(("M", True, 1, None))
                else:
                    hi = (lvl + 0.5) * tick if variant != "cross1" else (lvl + 1.5) * tick
                    w.apply(("L", True, hi, 1, None))
                    w.apply(("L", False, (lvl - 0.5) * tick, 1, None))
                if variant != "cont":
                    w.apply(("X",))
            except Violation as v:
                raise Violation(v.monitor, v.msg.split(" | ")[0], "tick %r level %d (%s): %s" % (tick, lvl, variant, v.msg.split(" | ", 1)[-1]))
            wit.merge(w.wit)
            wit.inc("locked_book_levels")
    return (tick, base)


def run(tier, seed):
    # "jump": the clock may also be set 2 or 3 steps ahead in one call (Market._set_time) over books holding orders
    # with several times-to-live; the rounds that follow must still terminate and clear the book
    from ..explore_m import alphabet
    alph = {"jump": alphabet(vols=(1, 2), mvols=(1,), ttls=(None, 1, 2), mttls=(None, 1), cancels=2, dead=()) + [("J", 2), ("J", 3)]}
    d = 3 if tier == "quick" else 4
    extra = [(sd, "cont", d, "jump") for sd in ("expiring", "same_expiry", "mixed_ttl")] + [("empty", "cont", d, "jump")]
    res = run_generic("C03", tier, seed, factory, WIT, RULE, layouts=True, extra_alph=alph, extra_plan=extra)
    from ..enum_f import run_grid
    ev0, dn0 = res.coverage["evaluations"], res.coverage["distinct_nontrivial"]
    run_grid(res, "locked_book_per_grid_level", list(locked_cases(tier)), locked_fn, seed)
    res.coverage["evaluations"] = ev0 + res.coverage["witness_classes"].get("locked_book_levels", 0)
    res.coverage["distinct_nontrivial"] = dn0
    res.require_witness(["locked_book_levels"])
    # whole runs: every round the run loop starts (after halts, rules, shocks, high-frequency orders) returns and clears the book
    from ._r import run_whole_runs
    from ..acceptors_r import acc_C03, on_exc_C03
    run_whole_runs(res, "C03", tier, seed, [acc_C03], RULE + "; plus every matching round of every execution within deviation bound 1 of all whole-run scenario families", on_exc=on_exc_C03)
    res.require_witness(["whole_run_rounds_leaving_a_two_sided_book"])
    return res


def replay(payload):
    if payload.get("grid") == "locked_book_per_grid_level":
        from ..common import Counter
        try:
            locked_fn(tuple(payload["case"]), Counter())
        except Violation as v:
            print("  ==> VIOLATION %s: %s" % (v.monitor, v.msg))
            print("VIOLATION property=C03 replay=(this file)")
            return 1
        print("replay: no violation on this tree")
        return 0
    if payload.get("engine") == "R":
        from ._r import replay_whole_runs
        from ..acceptors_r import acc_C03, on_exc_C03
        return replay_whole_runs(payload, [acc_C03], on_exc_C03)
    return replay_generic(payload, factory)
