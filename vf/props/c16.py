"""C16: trading halt rule -- no fills on a stopped market; halt and resume on schedule -- Engine R."""
from .. import common
from ._r import run_r, replay_r
from ..acceptors_r2 import acc_C16, make_running_observer
from ..explore_r import Scenario, S, mkcfg, bl, sl, bm, sm
from ..scenarios_r import CL

WIT = ["two_rules_on_one_market", "time0_price_moved_by_trades_in_step0", "halt_after_multi_fill_round", "halt_triggered", "second_halt_of_a_rule", "resumed_after_halt", "halted_step", "halt_running_into_session_end",
       "order_or_cancel_accepted_during_halt", "fill_below_halt_line", "non_target_market_running", "complete_runs"]
RULE = ("session shapes x halt lengths x target sets (one or two markets, one or two rules) around base programs that walk the "
        "price across the first and second halt line, with all deviations of schedules and agent programs within the bound "
        "(extra orders/cancels/crossing orders during the halt, trades on the non-target market); a halt acceptor predicts the "
        "running state of every market at every step record, order arrival and fill from the system's own reported prices; "
        "distinct = outcome digests")


def menu(nm):
    out = [[]]
    for mi in range(nm):
        out += [[bl(mi, 125)], [sl(mi, 125)], [bl(mi, 150)], [sl(mi, 150)], [bl(mi, 100)], [sl(mi, 100)], [bl(mi, 110)], [sl(mi, 110)]]
    out += [[CL], [bm(0)], [sm(0)]]
    # a sweep: two resting sells at 150 lifted by one buy of volume 2 (one round, two fills, price moves by 2 x rate)
    out += [[sl(0, 150), sl(0, 150)], [bl(0, 150, 2)], [sl(0, 150, 2)]]
    # two orders in one batch, the first of which can trade through a halt line
    out += [[sl(0, 125), sl(0, 110)], [bl(0, 125), bl(0, 150)]]
    return out


def scenarios(tier):
    sc = {}
    shapes = {
        "exec7": lambda L: ([("x", 7)], 0),
        "noexec_long_then_exec": lambda L: ([("n", L + 2), ("x", 6)], L + 2),
        "noexec1_then_exec5": lambda L: ([("n", 1), ("x", 5)], 1),
        "exec3_exec4": lambda L: ([("x", 3), ("x", 4)], 0),
    }
    for shape, f in shapes.items():
        for L in (1, 2, 3):
            for setup in ("one_market", "two_markets_target0", "two_markets_both_one_rule", "two_markets_two_rules"):
                if setup != "one_market" and L == 3:
                    continue
                sess, off = f(L)
                nm = 1 if setup == "one_market" else 2
                mn = menu(nm)
                # base programs: idle in the first running step, then trade at 125 (first line), later at 150 (second line)
                pa = [0] * off + [0, 1, 0, 5, 3, 0, 5]
                pb = [0] * off + [0, 2, 0, 6, 4, 0, 6]
                if nm == 2:
                    # second market: the same walk one step later
                    pa = [0] * off + [0, 1, 9, 5, 3, 11, 5]
                    pb = [0] * off + [0, 2, 10, 6, 4, 12, 6]
                markets = [dict(name="M%d" % i) for i in range(nm)]
                ags = [dict(name="A0", menu=mn, program=pa, markets=[m["name"] for m in markets]),
                       dict(name="A1", menu=mn, program=pb, markets=[m["name"] for m in markets])]
                ev = {}
                rules = []
                if setup in ("one_market", "two_markets_target0"):
                    ev["H"] = {"class": "TradingHaltRule", "targetMarkets": ["M0"], "triggerChangeRate": 0.25, "haltingTimeLength": L}
                    rules.append(dict(targets=["M0"], r=0.25, L=L))
                elif setup == "two_markets_both_one_rule":
                    ev["H"] = {"class": "TradingHaltRule", "targetMarkets": ["M0", "M1"], "triggerChangeRate": 0.25, "haltingTimeLength": L}
                    rules.append(dict(targets=["M0", "M1"], r=0.25, L=L))
                else:
                    ev["H"] = {"class": "TradingHaltRule", "targetMarkets": ["M0"], "triggerChangeRate": 0.25, "haltingTimeLength": L}
                    ev["H2"] = {"class": "TradingHaltRule", "targetMarkets": ["M1"], "triggerChangeRate": 0.25, "haltingTimeLength": L}
                    rules += [dict(targets=["M0"], r=0.25, L=L), dict(targets=["M1"], r=0.25, L=L)]
                sessions = []
                for i, (kind, n) in enumerate(sess):
                    kw = dict(maxNormalOrders=2)
                    if i == 0:
                        kw["events"] = sorted(ev)
                    sessions.append(S(i, n, True, kind == "x", **kw))
                name = "halt:%s-L%d-%s" % (shape, L, setup)
                sc[name] = Scenario(name, mkcfg(sessions, markets=markets, agents=ags, events=ev), observer=make_running_observer(),
                                    meta=dict(halt_rules=rules))
                if L <= 2 and setup == "two_markets_target0":
                    # the rule's settings also carry the OBSOLETE key referenceMarket (announced as ignored), naming the other
                    # market, whose price walks one step behind: the halt decision stays with the traded target's own price
                    import copy
                    ev3 = copy.deepcopy(ev)
                    ev3["H"]["referenceMarket"] = "M1"
                    n3 = "%s-obsolete_reference_key" % name
                    sc[n3] = Scenario(n3, mkcfg(copy.deepcopy(sessions), markets=markets, agents=ags, events=ev3), observer=make_running_observer(),
                                      meta=dict(halt_rules=rules))
                if L <= 2 and len(sess) == 2 and setup in ("one_market", "two_markets_target0"):
                    # the same run with the rule listed under the LAST session instead of the first, and with other
                    # events (a price limit rule too wide to clip, a shock of the other market's fundamental) listed
                    # before / after it
                    import copy
                    for variant in ("listed_last", "with_other_events_first", "with_other_events_last"):
                        ev2 = dict(ev)
                        s2 = copy.deepcopy(sessions)
                        if variant == "listed_last":
                            del s2[0]["events"]
                            s2[-1]["events"] = sorted(ev)
                        else:
                            ev2["PL"] = {"class": "PriceLimitRule", "targetMarkets": [m["name"] for m in markets], "triggerChangeRate": 0.9375}
                            ev2["FS"] = {"class": "FundamentalPriceShock", "target": markets[-1]["name"], "triggerTime": 1, "priceChangeRate": 0.5, "shockTimeLength": 2}
                            s2[0]["events"] = (["PL", "FS"] + sorted(ev)) if variant.endswith("first") else (sorted(ev) + ["PL", "FS"])
                        n2 = "%s-%s" % (name, variant)
                        sc[n2] = Scenario(n2, mkcfg(s2, markets=markets, agents=ags, events=ev2), observer=make_running_observer(),
                                          meta=dict(halt_rules=rules))
    # multi-fill sweep scenarios: one round with two fills crosses the SECOND line at once (deviation 2 x rate);
    # after the resume a single fill at the same deviation must halt again
    for L in (1, 2):
        for nm in (1, 2):
            mn = menu(nm)
            k = len(mn)
            sweep_sell, sweep_buy, sell2 = k - 5, k - 4, k - 3
            pa = [0, 0, sweep_buy] + [0] * L + [3, 0, 0, 0]
            pb = [0, sweep_sell, 0] + [0] * L + [4, 0, 0, 0]
            markets = [dict(name="M%d" % i) for i in range(nm)]
            ags = [dict(name="A0", menu=mn, program=pa, markets=[m["name"] for m in markets]),
                   dict(name="A1", menu=mn, program=pb, markets=[m["name"] for m in markets])]
            ev = {"H": {"class": "TradingHaltRule", "targetMarkets": [m["name"] for m in markets], "triggerChangeRate": 0.25, "haltingTimeLength": L}}
            name = "halt:sweep-L%d-%dm" % (L, nm)
            sc[name] = Scenario(name, mkcfg([S(0, 6 + L, True, True, maxNormalOrders=2, events=["H"])], markets=markets, agents=ags, events=ev),
                                observer=make_running_observer(), meta=dict(halt_rules=[dict(targets=[m["name"] for m in markets], r=0.25, L=L)]))
    # execution on from step 0 with two matching rounds at different prices during step 0: the time-0 price is still
    # live then, so the reference the rule must use is the one the system reports afterwards (110, not 100)
    for L in (1, 2):
        mn = menu(1) + [[bl(0, 100), sl(0, 110)], [sl(0, 100), bl(0, 110)], [bl(0, 135)], [sl(0, 135)]]
        k = len(mn)
        pa = [k - 4, 1, k - 2, 0, 3, 0, 0]
        pb = [k - 3, 2, k - 1, 0, 4, 0, 0]
        ags = [dict(name="A0", menu=mn, program=pa, markets=["M0"]), dict(name="A1", menu=mn, program=pb, markets=["M0"])]
        ev = {"H": {"class": "TradingHaltRule", "targetMarkets": ["M0"], "triggerChangeRate": 0.25, "haltingTimeLength": L}}
        name = "halt:trades_in_step0-L%d" % L
        sc[name] = Scenario(name, mkcfg([S(0, 7, True, True, maxNormalOrders=2, events=["H"])], markets=[dict(name="M0")], agents=ags, events=ev),
                            observer=make_running_observer(), meta=dict(halt_rules=[dict(targets=["M0"], r=0.25, L=L)]))
    # the halting fill comes from a high-frequency agent's order, and the same agent's batch (or the next high-frequency
    # agent's) goes on with a crossing order for the market that has just been stopped
    for L in (1, 2):
        for nh in (1, 2):
            mn = menu(1)
            pa = [0, 4, 0, 0, 3, 0, 0]
            pb = [0, 2, 0, 0, 4, 0, 0]
            ags = [dict(name="A0", menu=mn, program=pa, markets=["M0"]), dict(name="A1", menu=mn, program=pb, markets=["M0"])]
            ags += [dict(name="H%d" % i, cls="ScriptedHFAgent", menu=mn, program=[0, 16, 0, 0, 0, 3, 0, 0] if i == 0 else [0, 3, 0, 0, 0, 0], markets=["M0"]) for i in range(nh)]
            ev = {"H": {"class": "TradingHaltRule", "targetMarkets": ["M0"], "triggerChangeRate": 0.25, "haltingTimeLength": L}}
            name = "halt:hft_orders_after_the_halting_fill-L%d-%dhft" % (L, nh)
            sc[name] = Scenario(name, mkcfg([S(0, 7, True, True, maxNormalOrders=2, maxHighFrequencyOrders=nh, highFrequencySubmitRate=1.0, events=["H"])],
                                            markets=[dict(name="M0")], agents=ags, events=ev),
                                observer=make_running_observer(), meta=dict(halt_rules=[dict(targets=["M0"], r=0.25, L=L)]))
    # a two-tier breaker: two rules on the SAME market with different rates and halt lengths; the path crosses the
    # first rule's line (125), is resumed, then crosses only the second rule's line (140)
    for L2 in (2, 3):
        mn = menu(1) + [[bl(0, 140)], [sl(0, 140)]]
        k = len(mn)
        pa = [0, 1, 0, 0, k - 2, 0, 0, 5, 0]
        pb = [0, 2, 0, 0, k - 1, 0, 0, 6, 0]
        ags = [dict(name="A0", menu=mn, program=pa, markets=["M0"]), dict(name="A1", menu=mn, program=pb, markets=["M0"])]
        ev = {"H1": {"class": "TradingHaltRule", "targetMarkets": ["M0"], "triggerChangeRate": 0.25, "haltingTimeLength": 1},
              "H2": {"class": "TradingHaltRule", "targetMarkets": ["M0"], "triggerChangeRate": 0.375, "haltingTimeLength": L2}}
        name = "halt:two_tier-L%d" % L2
        sc[name] = Scenario(name, mkcfg([S(0, 9, True, True, maxNormalOrders=2, events=["H1", "H2"])], markets=[dict(name="M0")], agents=ags, events=ev),
                            observer=make_running_observer(), meta=dict(halt_rules=[dict(targets=["M0"], r=0.25, L=1), dict(targets=["M0"], r=0.375, L=L2)]))
    return sc


def on_exc(w):
    return ("C16.run_aborted", "the run aborted | %s: %s" % (type(w.exc).__name__, str(w.exc)[:80]))


def acc_C16_activity(w):
    """orders can still be placed and cancelled during the halt -- by every agent class: while a halt is in force the
    runner goes on asking normal and high-frequency agents exactly as the session rules say"""
    acc_C16(w)
    from ..acceptors_r import acc_C09
    try:
        acc_C09(w)
    except common.Violation as v:
        if v.monitor in ("C09.hft_sample", "C09.hft_order", "C09.hft_not_all_consulted", "C09.rate_draw", "C09.normal_sample", "C09.normal_order",
                         "C09.normal_not_all_consulted"):
            raise common.Violation("C16.activity_during_halt", "while a halt is in force agents are not asked for orders the way the session rules say (orders can still be placed and cancelled during the halt) | " + v.msg)
        if v.monitor in ("C09.no_round_after_accept", "C09.fill_in_no_execution_session"):
            raise common.Violation("C16.matching_around_halt", "matching does not stop with the halt and resume with it: while no halt is in force every accepted order or cancel is followed by a matching round | " + v.msg)
        # anything else the run-loop acceptor objects to belongs to C09


def run(tier, seed):
    res = common.Result("C16", tier, seed)
    sc = scenarios(tier)
    hft = {k: v for k, v in sc.items() if "hft" in k}
    sc = {k: v for k, v in sc.items() if k not in hft}
    run_r("C16", tier, seed, hft, [acc_C16_activity], 1 if tier == "quick" else 2, on_exc, [], RULE, res=res, label="halt_with_high_frequency_agents", split=0)
    run_r("C16", tier, seed, sc, [acc_C16_activity], 1 if tier == "quick" else 2, on_exc, WIT, RULE, res=res, label="halt_grid", split=0)
    deep = {k: v for k, v in sc.items() if k in ("halt:exec7-L2-one_market", "halt:noexec_long_then_exec-L1-two_markets_two_rules",
                                                  "halt:exec3_exec4-L2-two_markets_both_one_rule", "halt:sweep-L1-1m")}
    if tier != "quick":
        # bound 3 on all four took 1.6 h; the whole grid is already at bound 2 in this tier, so only the smallest one goes deeper
        deep = {k: v for k, v in deep.items() if k == "halt:sweep-L1-1m"}
    run_r("C16", tier, seed, deep, [acc_C16_activity], 2 if tier == "quick" else 3, on_exc, WIT, RULE, res=res, label="halt_grid_deeper")
    return res


def replay(payload):
    return replay_r(scenarios("thorough"), [acc_C16_activity], on_exc, payload)
