"""C06 acceptor: one lock-step clock, no access to the future, recorded history never changes."""
from .common import Violation
from .acceptors_r import V
from .explore_r import IndexMarket, SessionBeginLog, SessionEndLog

BULK = ["get_market_prices", "get_mid_prices", "get_last_executed_prices", "get_fundamental_prices",
        "get_executed_volumes", "get_executed_total_prices", "get_n_buy_orders", "get_n_sell_orders"]
SINGLE = ["get_market_price", "get_mid_price", "get_last_executed_price", "get_fundamental_price",
          "get_executed_volume", "get_executed_total_price", "get_n_buy_order", "get_n_sell_order", "get_vwap"]
INDEX_SINGLE = ["get_index", "get_market_index", "get_fundamental_index", "compute_market_index"]


def _n(x):
    return "nan" if isinstance(x, float) and x != x else x


def snapshot_at(m, s):
    out = [_n(getattr(m, g)(s)) for g in SINGLE]
    if isinstance(m, IndexMarket):
        out += [_n(getattr(m, g)(s)) for g in INDEX_SINGLE]
    return tuple(out)


def past_columns(m, t):
    """all series for times < t through the bulk getters (one list per series)"""
    rng = range(0, t)
    return [getattr(m, g)(rng) for g in BULK]


def make_observers(future_checks=True):
    def before_clock(w, market):
        # the last moment at which time `t` is current for this market: freeze its values
        t = market.get_time()
        if t < 0:
            return
        ref = w.__dict__.setdefault("c06_ref", {})
        r = ref.setdefault(market.market_id, dict(cols=[[] for _ in BULK], single={}))
        for col, g in zip(r["cols"], BULK):
            col.append(getattr(market, g)([t])[0])
        r["single"][t] = snapshot_at(market, t)

    def obs(w, label):
        sim = w.runner.simulator
        w.rec("c06_times", label, [m.get_time() for m in sim.markets])
        if label[0] != "steplog":
            return
        first, last = sim.markets[0].market_id, sim.markets[-1].market_id
        if not ((label[1] == "MarketStepBeginLog" and label[2] == first) or (label[1] == "MarketStepEndLog" and label[2] == last)):
            return
        ref = w.__dict__.setdefault("c06_ref", {})
        n = 0
        for m in sim.markets:
            t = m.get_time()
            r = ref.get(m.market_id)
            if t > 0 and r is not None:
                cols = past_columns(m, t)
                for g, now, was in zip(BULK, cols, r["cols"]):
                    if now != was[:t]:
                        s = next(i for i in range(t) if now[i] != was[i])
                        w.rec("c06_changed", m.market_id, s, t, "%s=%r" % (g, was[s]), "%s=%r" % (g, now[s]), label)
                    n += t
                # single-time getters (incl. VWAP and index getters): time 0, the previous step and one more past time per observation
                for s in sorted(set([0, (t * 7 + len(w.ev)) % t, t - 1])):
                    if s in r["single"] and r["single"][s] != snapshot_at(m, s):
                        w.rec("c06_changed", m.market_id, s, t, r["single"][s], snapshot_at(m, s), label)
                    n += 1
            if future_checks:
                for ahead in (1, 2):
                    s = t + ahead
                    for g in SINGLE + (INDEX_SINGLE if isinstance(m, IndexMarket) else []):
                        try:
                            val = getattr(m, g)(s)
                        except Exception:  # noqa  (refused)
                            continue
                        w.rec("c06_future", m.market_id, g, s, t, repr(val))
                    for g in BULK:
                        for times in ([t, s], [s, t], (s, 0), range(s, -1, -1), iter([s, t]), [0, s, t]):
                            try:
                                val = getattr(m, g)(times)
                            except Exception:  # noqa
                                continue
                            w.rec("c06_future", m.market_id, g, s, t, repr(val))
        w.wit.inc("future_queries_refused_points")
        w.wit.inc("past_values_compared", n)
    return obs, before_clock


def acc_C06(w):
    sim = w.runner.simulator
    cfg_sessions = w.scn.cfg["simulation"]["sessions"]
    total = sum(s["iterationSteps"] for s in cfg_sessions)
    # ---- clock: groups of clock events; every market advances by exactly one per step, index markets last
    groups = []
    cur = None
    for e in w.ev:
        if e[0] == "clock":
            if cur is None:
                cur = []
                groups.append(cur)
            cur.append(e)
        elif e[0] in ("lw", "lp") and cur is not None and type(e[1]).__name__ == "ExpirationLog":
            continue
        else:
            cur = None
    V(len(groups) == total + 1, "C06.step_count", "the clock did not advance exactly once per configured step",
      "%d advances for %d steps (+1 initial)" % (len(groups), total))
    ids = sorted(m.market_id for m in sim.markets)
    for gi, g in enumerate(groups):
        V(sorted(e[1] for e in g) == ids, "C06.lockstep", "not every market advanced exactly once at a step boundary", "advance #%d" % gi)
        V(all(e[2] == gi for e in g), "C06.lockstep", "a market's clock does not read the number of completed steps",
          "advance #%d: %s" % (gi, [(e[1], e[2]) for e in g]))
        seen_index = False
        for e in g:
            if isinstance(sim.id2market[e[1]], IndexMarket):
                seen_index = True
            else:
                V(not seen_index, "C06.index_order", "an index market was stepped before one of the plain markets", "advance #%d" % gi)
        if any(isinstance(sim.id2market[e[1]], IndexMarket) for e in g):
            w.wit.inc("index_market_stepped_last")
    # ---- all markets report the same time at every observation point, equal to completed steps
    completed = -1
    in_group = False
    for e in w.ev:
        if e[0] == "clock":
            if not in_group:
                completed += 1
                in_group = True
            continue
        if e[0] in ("lw", "lp") and in_group:
            continue
        in_group = False
        if e[0] == "c06_times":
            V(all(t == completed for t in e[2]), "C06.same_time", "markets do not all report the number of completed steps as their time",
              "times %s after %d advances at %s" % (e[2], completed, e[1]))
            w.wit.inc("observation_points")
    # ---- sessions span exactly their configured steps, starting where the previous one ended
    start = 0
    for i, (s, sess) in enumerate(zip(cfg_sessions, sim.sessions)):
        V(sess.session_start_time == start, "C06.session_start", "a session's recorded start time is not the end of the previous session",
          "session %d start %d expected %d" % (i, sess.session_start_time, start))
        start += s["iterationSteps"]
    completed = -1
    in_group = False
    begun = {}
    for e in w.ev:
        if e[0] == "clock":
            if not in_group:
                completed += 1
                in_group = True
            continue
        in_group = False if e[0] not in ("lw", "lp") else in_group
        if e[0] == "lw" and isinstance(e[1], SessionBeginLog):
            begun[e[1].session.session_id] = completed
            V(completed == e[1].session.session_start_time, "C06.session_span", "a session did not begin at its start time",
              "session %d began at clock %d" % (e[1].session.session_id, completed))
        if e[0] == "lw" and isinstance(e[1], SessionEndLog):
            sid = e[1].session.session_id
            V(completed - begun.get(sid, -99) == cfg_sessions[sid]["iterationSteps"], "C06.session_span",
              "a session did not span exactly its configured number of steps",
              "session %d ran %d steps, configured %d" % (sid, completed - begun.get(sid, -99), cfg_sessions[sid]["iterationSteps"]))
            w.wit.inc("sessions_checked")
    if len(cfg_sessions) >= 3:
        w.wit.inc("three_sessions")
    # ---- future refused, past immutable (recorded by the observer)
    for e in w.ev:
        if e[0] == "c06_future":
            raise Violation("C06.future", "a market query for a time later than the current time was answered",
                            "market %s %s(%s) at time %s returned %s" % (e[1], e[2], e[3], e[4], e[5]))
        if e[0] == "c06_changed":
            raise Violation("C06.history_changed", "a value recorded for a past time changed afterwards",
                            "market %s time %s (now %s): was %s now %s" % (e[1], e[2], e[3], e[4], e[5]))
    if total > 100:
        w.wit.inc("run_crossing_100_step_chunk")
    if total > 200:
        w.wit.inc("run_crossing_200_step_chunk")
    if w.scn.meta.get("small_chunks"):
        w.wit.inc("chunk_size_3_run")
