"""Engine R: stateless, deviation-bounded exploration of whole miniature simulations.

System under test: the real SequentialRunner(settings, prng=ChoiceRandom, logger=RecLogger) ->
_setup() -> _run(), real Simulator / Session / Fundamentals / built-in events.  Probes are registered
subclasses whose overrides call super() and append what actually happened to a totally ordered
event record (the ground truth the acceptors compare everything else with)."""
import copy
import itertools
import random
import time
import traceback

from . import common
from .common import Violation, Counter

common.import_pams()
from pams.agents import Agent, HighFrequencyAgent  # noqa: E402
from pams.events import EventABC, EventHook  # noqa: E402
from pams.index_market import IndexMarket  # noqa: E402
from pams.logs.base import (CancelLog, ExecutionLog, ExpirationLog, Logger,  # noqa: E402
                            MarketStepBeginLog, MarketStepEndLog, OrderLog, SessionBeginLog,
                            SessionEndLog, SimulationBeginLog, SimulationEndLog)
from pams.market import Market  # noqa: E402
from pams.order import LIMIT_ORDER, MARKET_ORDER, Cancel, Order  # noqa: E402
from pams.runners.sequential import SequentialRunner  # noqa: E402

W = None  # the world of the execution in progress (single-threaded, one per process)

U_ANSWERS = [2.0 ** -53, 0.25, 0.75, 1 - 2.0 ** -53]


class Divergence(Exception):
    pass


class Chooser:
    def __init__(self, prefix):
        self.prefix = prefix
        self.trace = []  # (kind, n, chosen)
        self.steps = None

    def choose(self, kind, n):
        if n <= 1:
            return 0
        if self.steps is not None and W.runner is not None and W.phase == "run" \
                and W.runner.simulator.markets[0].get_time() not in self.steps:
            return 0  # outside the scenario's choice window: the default, and not a choice point
        i = len(self.trace)
        c = self.prefix[i] if i < len(self.prefix) else 0
        if not (0 <= c < n):
            raise Divergence("replay divergence at choice point %d (%s): choice %d out of range %d" % (i, kind, c, n))
        self.trace.append((kind, n, c))
        return c


class RWorld:
    def __init__(self, scn, prefix):
        self.scn = scn
        self.ch = Chooser(list(prefix))
        self.ch.steps = scn.meta.get("choice_steps")
        self.ev = []
        self.exc = None
        self.exc_tb = None
        self.wit = Counter()
        self.runner = None
        self.observer = scn.observer
        self.phase = "setup"

    def rec(self, *a):
        self.ev.append(a)

    def observe(self, label):
        if self.observer is not None and self.phase == "run":
            self.observer(self, label)


# ------------------------------------------------------------------------------------------------
# probes


class ChoiceRandom(random.Random):
    """The runner's PRNG: every answer is an explorer choice (sample -> permutation index,
    random() -> index into U_ANSWERS); randint (child seeds) is a deterministic counter."""

    def __init__(self):
        super().__init__(0)
        self.ctr = 0

    def sample(self, population, k, **kw):
        pop = list(population)
        if len(pop) > 4:
            raise common.HarnessError("population too large for permutation enumeration")
        if k > len(pop) or k < 0:
            raise ValueError("Sample larger than population or is negative")
        # k == len(pop) in the code as it stands; a draw of fewer (k-permutations) is left to the acceptors to judge
        perms = list(itertools.permutations(range(len(pop)), k))
        p = perms[W.ch.choose("perm%d" % k if k == len(pop) else "perm%d_%d" % (len(pop), k), len(perms))]
        W.rec("sample", [getattr(x, "agent_id", None) for x in pop], p, k)
        return [pop[i] for i in p]

    def random(self):
        d = W.scn.u_default
        c = W.ch.choose("u", len(U_ANSWERS))
        u = U_ANSWERS[(d + c) % len(U_ANSWERS)]
        W.rec("u", u)
        return u

    def randint(self, a, b):
        self.ctr += 1
        return self.ctr

    def _unowned(self, *a, **k):
        raise common.HarnessError("runner PRNG method not owned by the explorer was called")

    shuffle = choice = choices = uniform = gauss = normalvariate = randrange = _unowned


class ProbeMixin:
    def _add_order(self, *a, **k):
        o = k.get("order", a[0] if a else None)
        returned = getattr(o, "_vf_returned", None)
        pre = (o.is_buy, o.kind, o.price, o.volume, o.ttl, o.placed_at, o.order_id)
        info = dict(running=self._is_running, mp=self.get_market_price(), mp0=self.get_market_price(0),
                    all_running=all(m.is_running for m in self.simulator.markets), t=self.time)
        l = super()._add_order(*a, **k)
        post = (o.order_id, o.market_id, o.placed_at, o.agent_id, o.is_buy, o.kind, o.volume, o.price, o.ttl)
        W.rec("acc", self.market_id, l, o, pre, returned, post, info)
        return l

    def _cancel_order(self, *a, **k):
        c = k.get("cancel", a[0] if a else None)
        l = super()._cancel_order(*a, **k)
        o = c.order
        post = (o.order_id, o.market_id, c.placed_at, o.placed_at, o.agent_id, o.is_buy, o.kind, o.volume, o.price, o.ttl)
        W.rec("can", self.market_id, l, o, post, dict(running=self._is_running, all_running=all(m.is_running for m in self.simulator.markets), t=self.time))
        return l

    def _execution(self):
        running = self._is_running

        def key(o):  # priority key written from the property text, from the order's fields as they are NOW
            if o.kind == MARKET_ORDER or o.price is None:
                return (0, 0.0, o.placed_at, o.order_id)
            return (1, -o.price if o.is_buy else o.price, o.placed_at, o.order_id)
        pre = [(o.order_id, o.is_buy, key(o), o.volume) for o in list(self.buy_order_book.priority_queue) + list(self.sell_order_book.priority_queue)]
        objs = list(self.buy_order_book.priority_queue) + list(self.sell_order_book.priority_queue)
        vol0 = [o.volume for o in objs]
        try:
            ls = super()._execution()
        except Exception as e:  # noqa
            W.rec("round_raised", self.market_id, running, "%s: %s" % (type(e).__name__, str(e)[:100]))
            raise
        # what really left the book in this round: the volume each resting order lost
        delta = {(o.is_buy, o.order_id): v0 - o.volume for o, v0 in zip(objs, vol0) if v0 != o.volume}
        W.rec("round", self.market_id, ls, running,
              dict(mp=self.get_market_price(), mp0=self.get_market_price(0), running_after=self._is_running, t=self.time, pre=pre, delta=delta,
                   post=(min([key(o) for o in self.buy_order_book.priority_queue], default=None),
                         min([key(o) for o in self.sell_order_book.priority_queue], default=None))))
        return ls

    def _update_time(self, *a, **k):
        f = W.scn.before_clock
        if f is not None and W.phase == "run":
            f(W, self)
        before = [o for o in list(self.buy_order_book.priority_queue) + list(self.sell_order_book.priority_queue)]
        super()._update_time(*a, **k)
        live = set(id(o) for o in list(self.buy_order_book.priority_queue) + list(self.sell_order_book.priority_queue))
        gone = [o for o in before if id(o) not in live]
        W.rec("clock", self.market_id, self.time, gone)
        g = W.scn.after_clock
        if g is not None and W.phase == "run":
            g(W, self)


class ProbeMarket(ProbeMixin, Market):
    pass


class ProbeIndexMarket(ProbeMixin, IndexMarket):
    pass


def order_desc(o):
    if isinstance(o, Cancel):
        return ("C", o.order.market_id, o.order.order_id)
    return ("O", o.market_id, o.is_buy, o.kind.kind_id, o.price, o.volume, o.ttl)


class ScriptedMixin:
    """Agent whose decisions are explorer choices from a finite menu of batches.
    settings: menu (list of batches; a batch is a list of atoms), program (default menu index for the
    k-th consultation, cyclic).  Choice 0 is always the default program's batch."""

    def setup(self, settings, accessible_markets_ids, *a, **k):
        super().setup(settings, accessible_markets_ids, *a, **k)
        self.menu = settings["menu"]
        self.program = settings.get("program", [0])
        self.mine = []
        self.n_consult = 0
        # a user-written agent that is a container (of the fills it was told about, say) and is EMPTY, hence falsy,
        # all along: `if agent:` is not `if agent is not None:`
        self._vf_len = 0 if settings.get("falsy") else 1
        if settings.get("rebind_holdings"):
            # what a user class does when it sets its own per-market endowments in setup: new containers, same content
            self.asset_volumes = dict(self.asset_volumes)
            self.cash_amount = float(self.cash_amount)

    def __len__(self):
        return getattr(self, "_vf_len", 1)

    def _live(self, o, t):
        return (o.placed_at is not None and not o.is_canceled and o.volume > 0
                and (o.ttl is None or t <= o.placed_at + o.ttl))

    def _atom(self, atom, markets):
        k = atom[0]
        if k == "L":
            _, mi, is_buy, price, vol, ttl = atom
            return [Order(self.agent_id, markets[mi].market_id, is_buy, LIMIT_ORDER, vol, price=float(price), ttl=ttl)]
        if k == "M":
            _, mi, is_buy, vol, ttl = atom
            return [Order(self.agent_id, markets[mi].market_id, is_buy, MARKET_ORDER, vol, ttl=ttl)]
        if k == "C":
            t = markets[0].get_time()
            placed = [o for o in self.mine if o.placed_at is not None]
            if atom[1] == "oldest_live":
                c = [o for o in placed if self._live(o, self.simulator.id2market[o.market_id].get_time())]
            elif atom[1] == "dead":
                c = [o for o in placed if not self._live(o, self.simulator.id2market[o.market_id].get_time()) and not o.is_canceled]
            elif atom[1] == "newest":
                c = placed[-1:]
            else:
                c = placed
            return [Cancel(c[0])] if c else []
        if k == "RESUBMIT":
            placed = [o for o in self.mine if o.placed_at is not None]
            if atom[1:] == ["live"]:
                placed = [o for o in placed if self._live(o, self.simulator.id2market[o.market_id].get_time())]
            if placed:
                W.rec("invalid", self.agent_id, "resubmit", placed[0])
            return placed[:1]
        if k == "SPOOF":
            other = [a for a in self.simulator.agents if a.agent_id != self.agent_id][0]
            o = Order(other.agent_id, markets[0].market_id, True, LIMIT_ORDER, 1, price=100.0)
            W.rec("invalid", self.agent_id, "spoof", o)
            return [o]
        if k == "CANCEL_OTHER":
            for a in self.simulator.agents:
                if a.agent_id != self.agent_id:
                    for o in getattr(a, "mine", []):
                        if o.placed_at is not None:
                            W.rec("invalid", self.agent_id, "cancel_other", o)
                            return [Cancel(o)]
            return []
        if k == "TWICE":
            o = Order(self.agent_id, markets[0].market_id, True, LIMIT_ORDER, 1, price=99.0)
            W.rec("invalid", self.agent_id, "twice_in_batch", o)
            return [o, o]
        raise common.HarnessError("unknown menu atom %r" % (atom,))

    def submit_orders(self, markets):
        d = self.program[self.n_consult % len(self.program)]
        self.n_consult += 1
        n = len(self.menu)
        c = W.ch.choose("menu", n)
        batch = self.menu[(d + c) % n]
        W.observe(("consult", self.agent_id))
        out = []
        for atom in batch:
            out.extend(self._atom(atom, markets))
        for o in out:
            if isinstance(o, Order) and o.placed_at is None:
                o._vf_returned = order_desc(o)
                self.mine.append(o)
        W.rec("consult", self.agent_id, [order_desc(o) for o in out], markets[0].get_time(), list(out))
        return out

    def submitted_order(self, log):
        W.rec("cb_sub", self.agent_id, log)
        W.observe(("cb_sub", self.agent_id))

    def executed_order(self, log):
        W.rec("cb_exe", self.agent_id, log, self.cash_amount, dict(self.asset_volumes))
        W.observe(("cb_exe", self.agent_id))

    def canceled_order(self, log):
        W.rec("cb_can", self.agent_id, log)
        W.observe(("cb_can", self.agent_id))


class ScriptedAgent(ScriptedMixin, Agent):
    pass


class ScriptedHFAgent(ScriptedMixin, HighFrequencyAgent):
    pass


class RecLogger(Logger):
    def write(self, log):
        W.rec("lw", log)
        super().write(log)

    def bulk_write(self, logs):
        for l in logs:
            W.rec("lw", l)
        super().bulk_write(logs)

    def write_and_direct_process(self, log):
        W.rec("lwd", log)
        super().write_and_direct_process(log)

    def process(self, logs):
        for l in logs:
            W.rec("lp", l)
            if isinstance(l, (MarketStepBeginLog, MarketStepEndLog)):
                W.observe(("steplog", type(l).__name__, l.market.market_id))
        super().process(logs)


class SizedRecLogger(RecLogger):
    """a collecting logger the way a user might write it: len(logger) is the number of records kept so far (so the
    object is falsy until its first record arrives)"""

    def __init__(self):
        super().__init__()
        self.kept = []

    def write(self, log):
        self.kept.append(log)
        super().write(log)

    def write_and_direct_process(self, log):
        self.kept.append(log)
        super().write_and_direct_process(log)

    def __len__(self):
        return len(self.kept)


class _TradeHandlers(RecLogger):
    """handlers for order / cancel / expiry / fill records, defined one level above the logger class that is used"""

    def process_order_log(self, log):
        W.rec("lh", log)

    def process_cancel_log(self, log):
        W.rec("lh", log)

    def process_expiration_log(self, log):
        W.rec("lh", log)

    def process_execution_log(self, log):
        W.rec("lh", log)


class LayeredRecLogger(_TradeHandlers):
    """a logger the way users layer them: this class adds the boundary and step handlers, the trade handlers are inherited"""

    def process_simulation_begin_log(self, log):
        W.rec("lh", log)

    def process_simulation_end_log(self, log):
        W.rec("lh", log)

    def process_session_begin_log(self, log):
        W.rec("lh", log)

    def process_session_end_log(self, log):
        W.rec("lh", log)

    def process_market_step_begin_log(self, log):
        W.rec("lh", log)

    def process_market_step_end_log(self, log):
        W.rec("lh", log)


class WriteOnlyRecLogger(RecLogger):
    """a user logger that hooks the one door the library delivers records through, `write` (and the direct variant), and
    leaves `bulk_write` as inherited from the library: a record that reaches the logger by that other door is not seen
    arriving"""
    bulk_write = Logger.bulk_write


LOGGERS = {"rec": RecLogger, "sized": SizedRecLogger, "none": lambda: None, "layered": LayeredRecLogger, "writeonly": WriteOnlyRecLogger}

HOOK_KINDS = [("order", True), ("order", False), ("cancel", True), ("cancel", False), ("execution", False),
              ("session", True), ("session", False), ("market", True), ("market", False)]


class ProbeEvent(EventABC):
    """settings: hooks = list of [hook_type, is_before, time-list-or-None, filter]
    filter: None | "cls:Market" | "cls:IndexMarket" | "inst:<i>" | "inst:<i>+cls:<name>";
    alter = None | ["price", p] (before-order hooks rewrite the pending order's price)."""

    def setup(self, settings, *a, **k):
        self.specs = settings["hooks"]
        self.alter = settings.get("alter")
        self.double = settings.get("double_register", False)
        # act_before_session: the before-session hook cancels the oldest resting order of the first market directly at
        # the market (what a user event that "cleans the book at the open" does)
        self.act_before_session = settings.get("act_before_session", False)
        # late_hooks: specifications registered through simulator._add_event while the run is going on, from inside this
        # event's first after-order (late_on = "order") or after-execution (late_on = "execution") hook call
        self.late_hooks = settings.get("late_hooks", [])
        self.late_on = settings.get("late_on", "order")
        self.late_done = False

    def hook_registration(self):
        hs = []
        for (t, b, tm, flt) in self.specs:
            kw = {}
            if flt:
                for part in flt.split("+"):
                    kind, val = part.split(":")
                    if kind == "cls":
                        kw["specific_class"] = {"Market": Market, "IndexMarket": IndexMarket,
                                                "ProbeMarket": ProbeMarket}[val]
                    else:
                        kw["specific_instance"] = self.simulator.markets[int(val)]
            hs.append(EventHook(self, t, b, time=(list(tm) if tm is not None else None), **kw))
        if self.double:
            hs.append(hs[0])
        return hs

    def hooked_before_order(self, simulator, order):
        W.rec("hk", self.event_id, "order", True, simulator.id2market[order.market_id].get_time(), order.market_id,
              (order.placed_at, order.order_id, order.price))
        if self.alter and self.alter[0] == "price" and order.price is not None:
            if W.ch.choose("alter", 2) == 1:
                order.price = float(self.alter[1])
                W.rec("altered", order, order.price)
        W.observe(("hook", "order", True))

    def _register_late(self, simulator, on):
        if self.late_hooks and not self.late_done and self.late_on == on:
            self.late_done = True
            for (t, b, tm, flt) in self.late_hooks:
                simulator._add_event(EventHook(self, t, b, time=(list(tm) if tm is not None else None)))
                W.rec("late_registered", self.event_id, [t, b, tm, flt])

    def hooked_after_order(self, simulator, order_log):
        self._register_late(simulator, "order")
        W.rec("hk", self.event_id, "order", False, order_log.time, order_log.market_id, order_log)
        W.observe(("hook", "order", False))

    def hooked_before_cancel(self, simulator, cancel):
        W.rec("hk", self.event_id, "cancel", True, simulator.id2market[cancel.market_id].get_time(), cancel.market_id,
              (cancel.placed_at, cancel.order.is_canceled))
        W.observe(("hook", "cancel", True))

    def hooked_after_cancel(self, simulator, cancel_log):
        W.rec("hk", self.event_id, "cancel", False, cancel_log.cancel_time, cancel_log.market_id, cancel_log)
        W.observe(("hook", "cancel", False))

    def hooked_after_execution(self, simulator, execution_log):
        self._register_late(simulator, "execution")
        W.rec("hk", self.event_id, "execution", False, execution_log.time, execution_log.market_id, execution_log)
        W.observe(("hook", "execution", False))

    def hooked_before_session(self, simulator, session):
        if self.act_before_session:
            mk = simulator.markets[0]
            live = sorted(list(mk.buy_order_book.priority_queue) + list(mk.sell_order_book.priority_queue),
                          key=lambda o: (o.placed_at, o.order_id))
            if live:
                mk._cancel_order(Cancel(live[0]))
                W.rec("event_cancelled", self.event_id, live[0].order_id)
        W.rec("hk", self.event_id, "session", True, session.session_start_time, None, session.session_id)
        W.rec("hk_state", self.event_id, True, session.session_id, tuple((m.market_id, bool(m.is_running), m.get_time()) for m in simulator.markets))
        W.observe(("hook", "session", True))

    def hooked_after_session(self, simulator, session):
        W.rec("hk", self.event_id, "session", False, session.session_start_time + session.iteration_steps - 1, None,
              session.session_id)
        W.rec("hk_state", self.event_id, False, session.session_id, tuple((m.market_id, bool(m.is_running), m.get_time()) for m in simulator.markets))
        W.observe(("hook", "session", False))

    def hooked_before_step_for_market(self, simulator, market):
        W.rec("hk", self.event_id, "market", True, market.get_time(), market.market_id, None)
        W.observe(("hook", "market", True))

    def hooked_after_step_for_market(self, simulator, market):
        W.rec("hk", self.event_id, "market", False, market.get_time(), market.market_id, None)
        W.observe(("hook", "market", False))


PROBE_CLASSES = [ProbeMarket, ProbeIndexMarket, ScriptedAgent, ScriptedHFAgent, ProbeEvent]


# ------------------------------------------------------------------------------------------------
# scenarios


class Scenario:
    def __init__(self, name, cfg, u_default=1, observer=None, before_clock=None, after_clock=None, meta=None,
                 post_setup=None):
        self.name = name
        self.cfg = cfg
        self.u_default = u_default
        self.observer = observer
        self.before_clock = before_clock
        self.after_clock = after_clock
        self.meta = meta or {}
        self.post_setup = post_setup


def S(name, steps, placement, execution, **k):
    d = dict(sessionName=str(name), iterationSteps=steps, withOrderPlacement=placement, withOrderExecution=execution,
             withPrint=False)
    d.update(k)
    return d


# menu atoms
def bl(mi, p, v=1, ttl=None):
    return ["L", mi, True, p, v, ttl]


def sl(mi, p, v=1, ttl=None):
    return ["L", mi, False, p, v, ttl]


def bm(mi, v=1, ttl=None):
    return ["M", mi, True, v, ttl]


def sm(mi, v=1, ttl=None):
    return ["M", mi, False, v, ttl]


def mkcfg(sessions, markets=None, agents=None, events=None, extra=None):
    """markets: list of dicts(name, cls, tick, price, shares, components, drift);
    agents: list of dicts(name, cls, n, markets, menu, program, cash, asset)."""
    markets = markets or [dict(name="M0")]
    cfg = {"simulation": {"markets": [m["name"] for m in markets], "agents": [a["name"] for a in agents],
                          "sessions": sessions}}
    for m in markets:
        d = {"class": m.get("cls", "ProbeMarket"), "tickSize": m.get("tick", 1.0), "marketPrice": m.get("price", 100.0)}
        if "shares" in m:
            d["outstandingShares"] = m["shares"]
        if "components" in m:
            d["markets"] = m["components"]
        if "drift" in m:
            d["fundamentalDrift"] = m["drift"]
        if "fundamental" in m:
            d["fundamentalPrice"] = m["fundamental"]
        cfg[m["name"]] = d
    for a in agents:
        d = {"class": a.get("cls", "ScriptedAgent"), "numAgents": a.get("n", 1), "markets": a.get("markets", [markets[0]["name"]]),
             "cashAmount": a.get("cash", 10000), "assetVolume": a.get("asset", 50), "menu": a["menu"],
             "program": a.get("program", [0])}
        if a.get("n", 1) == 1:
            del d["numAgents"]
        if a.get("rebind_holdings"):
            d["rebind_holdings"] = True
        cfg[a["name"]] = d
    cfg.update(events or {})
    cfg.update(extra or {})
    return cfg


# ------------------------------------------------------------------------------------------------
# one execution


def run_once(scn, prefix):
    global W
    w = RWorld(scn, prefix)
    W = w
    cfg = copy.deepcopy(scn.cfg)
    if scn.meta.get("settings_used_before"):
        # the caller's settings object has already served an earlier runner (a loop over seeds without deep copies):
        # a complete throw-away run on the SAME object first, default choices, nothing of it recorded for the acceptors
        w0 = RWorld(scn, [])
        w0.observer = None
        W = w0
        try:
            r0 = SequentialRunner(cfg, ChoiceRandom(), RecLogger())
            for c in PROBE_CLASSES + list(scn.meta.get("classes", [])):
                r0.class_register(c)
            w0.runner = r0
            r0._setup()
            w0.phase = "run"
            r0._run()
        except (common.HarnessError, Divergence):
            raise
        except Exception:  # noqa  (the recorded run below reports what matters)
            pass
        W = w
    r = SequentialRunner(cfg, ChoiceRandom(), LOGGERS[scn.meta.get("logger", "rec")]())
    for c in PROBE_CLASSES + list(scn.meta.get("classes", [])):
        r.class_register(c)
    w.runner = r
    try:
        r._setup()
    except common.HarnessError:
        raise
    except Divergence:
        raise
    except Exception as e:  # noqa
        w.exc = e
        w.exc_tb = traceback.format_exc()
        w.phase = "setup_failed"
        return w
    if scn.post_setup is not None:
        scn.post_setup(w)
    sim = r.simulator
    sim._vf_cfg = scn.cfg  # the scenario's own configuration object (the runner got a deep copy): what acceptors expect from
    w.endow = {a.agent_id: (a.cash_amount, dict(a.asset_volumes)) for a in sim.agents}
    for a in sim.agents:
        if not isinstance(a, ScriptedMixin):
            _probe_builtin_agent(a)
    w.phase = "run"
    try:
        r._run()
    except (common.HarnessError, Divergence):
        raise
    except Violation:
        raise
    except Exception as e:  # noqa
        w.exc = e
        w.exc_tb = traceback.format_exc()
        tb = traceback.extract_tb(e.__traceback__)
        w.exc_in_harness = bool(tb) and "/vf/" in tb[-1].filename
        if w.exc_in_harness:
            raise common.HarnessError("exception inside harness code:\n" + w.exc_tb)
    w.phase = "done"
    return w


def _probe_builtin_agent(a):
    """a built-in (or user) agent that is not scripted: its consultations and notifications are recorded like those of
    the scripted agents, its decisions are its own (its private PRNG is seeded from the explorer's counter)"""
    orig_submit, o_sub, o_exe, o_can = a.submit_orders, a.submitted_order, a.executed_order, a.canceled_order

    def submit_orders(markets):
        W.observe(("consult", a.agent_id))
        out = orig_submit(markets)
        for o in out:
            if isinstance(o, Order) and o.placed_at is None:
                o._vf_returned = order_desc(o)
        W.rec("consult", a.agent_id, [order_desc(o) for o in out], markets[0].get_time(), list(out))
        return out

    def submitted_order(log):
        W.rec("cb_sub", a.agent_id, log)
        W.observe(("cb_sub", a.agent_id))
        return o_sub(log)

    def executed_order(log):
        W.rec("cb_exe", a.agent_id, log, a.cash_amount, dict(a.asset_volumes))
        W.observe(("cb_exe", a.agent_id))
        return o_exe(log)

    def canceled_order(log):
        W.rec("cb_can", a.agent_id, log)
        W.observe(("cb_can", a.agent_id))
        return o_can(log)

    a.submit_orders, a.submitted_order, a.executed_order, a.canceled_order = submit_orders, submitted_order, executed_order, canceled_order


def summary_digest(w):
    """Digest of the observable outcome of one execution (for counting distinct end states)."""
    out = []
    for e in w.ev:
        k = e[0]
        if k == "acc":
            l = e[2]
            out.append(("a", e[1], l.agent_id, l.is_buy, l.kind.kind_id, l.price, l.volume, l.ttl, l.time))
        elif k == "can":
            l = e[2]
            out.append(("c", e[1], l.order_id, l.volume, l.cancel_time))
        elif k == "round":
            for l in e[2]:
                out.append(("x", e[1], l.buy_order_id, l.sell_order_id, l.price, l.volume, l.time))
        elif k == "clock":
            out.append(("t", e[1], e[2], len(e[3])))
        elif k == "consult":
            out.append(("q", e[1], len(e[2])))
        elif k == "hk":
            out.append(("h",) + tuple(e[1:6]))
    if w.exc is not None:
        out.append(("exc", type(w.exc).__name__))
    return common.digest(out)


# ------------------------------------------------------------------------------------------------
# deviation-bounded search

_TASK = None  # (scenario dict, acceptors, bound) set before forking


def _check(w, acceptors, on_exc):
    """Returns list of (monitor, msg)."""
    out = []
    if w.exc is not None:
        v = on_exc(w) if on_exc else None
        if v is not None:
            out.append(v)
        return out, True
    for acc in acceptors:
        try:
            acc(w)
        except Violation as v:
            out.append((v.monitor, v.msg))
    return out, False


def _subtree(arg):
    scn_name, prefix, dev = arg
    scns, acceptors, on_exc, bound = _TASK
    scn = scns[scn_name]
    st = dict(n=0, points=0, digests=set(), viol=[], wit=Counter(), aborted=0, maxlen=0)

    def rec(prefix, dev):
        w = run_once(scn, prefix)
        st["n"] += 1
        tr = w.ch.trace
        if len(tr) < len(prefix):
            raise Divergence("prefix %r longer than the %d choice points met" % (prefix, len(tr)))
        st["points"] += len(tr)
        st["maxlen"] = max(st["maxlen"], len(tr))
        st["digests"].add(summary_digest(w))
        vs, aborted = _check(w, acceptors, on_exc)
        if aborted:
            st["aborted"] += 1
        st["wit"].merge(w.wit)
        for mon, msg in vs:
            st["viol"].append((mon, msg, scn_name, [t[2] for t in tr]))
        if dev >= bound:
            return
        for i in range(len(prefix), len(tr)):
            base = [t[2] for t in tr[:i]]
            for alt in range(1, tr[i][1]):
                rec(base + [alt], dev + 1)

    rec(list(prefix), dev)
    return st


def explore(scns, acceptors, bound, on_exc=None, seed=0, split=1):
    """scns: dict name -> Scenario.  Explores every execution with at most `bound` non-default
    choices around each scenario's default program.  Sub-trees are farmed out by their first
    `split` deviations."""
    global _TASK
    _TASK = (scns, acceptors, on_exc, bound)
    t0 = time.time()
    tot = dict(n=0, points=0, digests=set(), viol=[], wit=Counter(), aborted=0, per_scenario={}, maxlen=0)
    tasks = []
    for name, scn in scns.items():
        if split == 0:
            tasks.append((name, (), 0))  # the whole tree of this scenario in one task
            continue
        w = run_once(scn, [])
        tr = w.ch.trace
        # the default execution itself
        tasks.append((name, (), bound))  # bound => no recursion: evaluated alone
        if bound >= 1:
            for i in range(len(tr)):
                base = [t[2] for t in tr[:i]]
                for alt in range(1, tr[i][1]):
                    tasks.append((name, tuple(base + [alt]), 1))
    tasks = common.rotate(tasks, seed)
    results = common.pool_map(_subtree, tasks, chunksize=(8 if split == 0 and len(tasks) > 2000 else 1))
    # pool_map is unordered: aggregate without per-task attribution, then per-scenario from violations
    for st in results:
        tot["n"] += st["n"]
        tot["points"] += st["points"]
        tot["digests"] |= st["digests"]
        tot["viol"].extend(st["viol"])
        tot["wit"].merge(st["wit"])
        tot["aborted"] += st["aborted"]
        tot["maxlen"] = max(tot["maxlen"], st["maxlen"])
    tot["wall_s"] = round(time.time() - t0, 1)
    tot["tasks"] = len(tasks)
    return tot


def describe_events(w, limit=400):
    lines = []
    for e in w.ev[:limit]:
        k = e[0]
        if k == "acc":
            l = e[2]
            lines.append("accept   m%d %s#%s agent%d %s %s v%s ttl%s t%d   (agent returned %s)" % (
                e[1], "B" if l.is_buy else "S", l.order_id, l.agent_id, l.kind, l.price, l.volume, l.ttl, l.time, e[5]))
        elif k == "can":
            l = e[2]
            lines.append("cancel   m%d #%s agent%d remaining v%s t%d" % (e[1], l.order_id, l.agent_id, l.volume, l.cancel_time))
        elif k == "round":
            lines.append("round    m%d running=%s fills=%s" % (e[1], e[3], [(l.buy_order_id, l.sell_order_id, l.price, l.volume) for l in e[2]]))
        elif k == "clock":
            lines.append("clock    m%d -> t=%d expired=%s" % (e[1], e[2], [o.order_id for o in e[3]]))
        elif k == "consult":
            lines.append("consult  agent%d t=%d returned %s" % (e[1], e[3], e[2]))
        elif k == "sample":
            lines.append("sample   %s perm %s" % (e[1], e[2]))
        elif k == "u":
            lines.append("random() -> %r" % e[1])
        elif k == "hk":
            lines.append("hook     event%d %s before=%s t=%s market=%s" % (e[1], e[2], e[3], e[4], e[5]))
        elif k in ("cb_sub", "cb_exe", "cb_can"):
            lines.append("callback %s agent%d %s" % (k, e[1], type(e[2]).__name__))
        elif k in ("lw", "lwd", "lp"):
            lines.append("logger   %s %s" % ({"lw": "write", "lwd": "write+process", "lp": "process"}[k], type(e[1]).__name__))
        else:
            lines.append("%s %s" % (k, " ".join(repr(x)[:60] for x in e[1:])))
    return lines


def add_violations(res, tot, extra_payload=None):
    first = {}
    for mon, msg, scn_name, choices in tot["viol"]:
        cls = msg.split(" | ")[0]
        key = (mon, cls)
        nd = sum(1 for c in choices if c)
        if key not in first or (nd, len(choices)) < first[key][0]:
            first[key] = ((nd, len(choices)), msg, scn_name, choices)
    for (mon, cls), (_, msg, scn_name, choices) in sorted(first.items()):
        sig = "%s:%s" % (mon, cls.replace(" ", "_")[:60])
        # trailing default choices are implied
        while choices and choices[-1] == 0:
            choices = choices[:-1]
        payload = dict(engine="R", scenario=scn_name, choices=choices)
        payload.update(extra_payload or {})
        res.add_violation(mon, msg, sig, payload)


def replay_r(scns, acceptors, on_exc, payload, verbose=True):
    scn = scns[payload["scenario"]]
    w = run_once(scn, payload["choices"])
    w2 = run_once(scn, payload["choices"])
    same = summary_digest(w) == summary_digest(w2)
    if verbose:
        print("scenario %s choices %s (deterministic replay: %s)" % (scn.name, payload["choices"], same))
        for l in describe_events(w):
            print("   ", l)
        if w.exc is not None:
            print("    run aborted:", repr(w.exc))
    vs, _ = _check(w, acceptors, on_exc)
    for mon, msg in vs:
        print("  ==> VIOLATION %s: %s" % (mon, msg))
    if not same:
        print("HARNESS-ERROR: replay is not deterministic")
        return 2
    if vs:
        print("VIOLATION property=%s replay=(this file)" % payload.get("property_id"))
        return 1
    print("replay: no violation on this tree")
    return 0
