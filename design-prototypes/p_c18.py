import random, warnings, itertools, math, copy
warnings.simplefilter("ignore")
import pams; print(pams.__file__)
from pams.runners.sequential import SequentialRunner
from pams.session import Session
from pams.utils.json_random import JsonRandom
from pams.utils.class_finder import find_class
from pams.agents import Agent
bad=0
def B(c,m):
    global bad
    if not c:
        bad+=1
        if bad<15: print("BAD",m)
# ranges/counts
def grp(kind,count,fr,to,prefix):
    d={"class":"Market","tickSize":1.0,"marketPrice":100.0} if kind=="m" else {"class":"TestAgent","markets":["G0"],"cashAmount":1,"assetVolume":1}
    if count is not None: d["numMarkets" if kind=="m" else "numAgents"]=count
    if fr is not None: d["from"]=fr
    if to is not None: d["to"]=to
    if prefix: d["prefix"]=prefix
    return d
specs=[(c,None,None) for c in (None,1,2,3)]+[(None,f,t) for f in range(4) for t in range(f,4)]
n=0
for kind in ("m","a"):
  for (s0,s1) in itertools.product(specs,repeat=2):
    for pf in (None,"P"):
        cfg={"simulation":{"markets":["G0","G1"] if kind=="m" else ["G0"],"agents":[] if kind=="m" else ["A0","A1"],"sessions":[]}}
        if kind=="m":
            cfg["G0"]=grp("m",*s0,pf); cfg["G1"]=grp("m",*s1,None)
        else:
            cfg["G0"]=grp("m",None,None,None,None); cfg["A0"]=grp("a",*s0,pf); cfg["A1"]=grp("a",*s1,None)
        r=SequentialRunner(cfg,random.Random(0)); n+=1
        try: r._setup()
        except Exception as e: B(False,("setup failed",kind,s0,s1,pf,repr(e))); continue
        ents=r.simulator.markets if kind=="m" else r.simulator.agents
        def cnt(sp): return (sp[0] if sp[0] is not None else 1) if sp[1] is None else sp[2]-sp[1]+1
        B(len(ents)==cnt(s0)+cnt(s1),("count",kind,s0,s1,len(ents)))
        ids=[e.market_id if kind=="m" else e.agent_id for e in ents]; B(ids==list(range(len(ents))),("ids",ids))
        names=[e.name for e in ents]; B(len(set(names))==len(names),("names",names))
print("ranges cases",n,"bad",bad)
# legacy keys
base={"iterationSteps":1,"withOrderPlacement":True,"withOrderExecution":True,"withPrint":False}
for v in (0,1,2):
    for rte in (0.0,0.25,1.0):
        a=Session(0,None,0,None,"s"); a.setup({**base,"maxHighFrequencyOrders":v,"highFrequencySubmitRate":rte})
        b=Session(0,None,0,None,"s"); b.setup({**base,"maxHifreqOrders":v,"hifreqSubmitRate":rte})
        B((a.max_high_frequency_orders,a.high_frequency_submission_rate)==(b.max_high_frequency_orders,b.high_frequency_submission_rate),("legacy",v,rte,(b.max_high_frequency_orders,b.high_frequency_submission_rate)))
# json random
class SR(random.Random):
    def __init__(s,u,g): super().__init__(0); s.u=u; s.g=g
    def random(s): return s.u
    def gauss(s,mu=0.0,sigma=1.0): return mu+sigma*s.g
for u in (2**-53,0.25,0.5,1-2**-53):
    for g in (-3,0,3):
        jr=JsonRandom(SR(u,g))
        for a,b in ((10,20),(0,1),(-4,4),(0.5,0.75),(100,200)):
            for spec in ([a,b],{"uniform":[a,b]}):
                x=jr.random(spec); B(a<=x<=b and abs(x-(a+u*(b-a)))<=1e-12*max(1,abs(b)),("uniform",spec,u,x))
        B(jr.random({"const":[7]})==7.0,"const"); B(jr.random(3)==3.0,"plain")
        B(jr.random({"normal":[1.0,2.0]})==1.0+2.0*g,"normal")
        x=jr.random({"expon":[3.0]}); B(x>0 and abs(x-(-3.0*math.log(u)))<1e-12*max(1,x),("expon",u,x))
    for badspec in ([1],[1,2,3],{"const":[1],"uniform":[1,2]},{"foo":[1]},{"const":1},{"const":[1,2]},{"uniform":[1]},{"normal":[1]},{"expon":[1,2]},{"uniform":3}):
        try: JsonRandom(SR(0.5,0)).random(badspec); B(False,("accepted bad spec",badspec))
        except ValueError: pass
# class names
import pams.agents, pams.events, pams.logs, pams.utils, inspect
for mod in (pams,pams.agents,pams.events,pams.logs,pams.utils):
    for name,obj in vars(mod).items():
        if inspect.isclass(obj) and not name.startswith("_"):
            try: B(find_class(name) is obj,("find_class wrong",name))
            except Exception as e: B(False,("find_class fails for",mod.__name__,name,repr(e)))
class UserX(Agent): pass
B(find_class("UserX",[UserX]) is UserX,"user class")
for args in (("Nope",None),("Nope",[UserX]),("UserX",[UserX,UserX])):
    try: find_class(*args); B(False,("no error",args))
    except AttributeError: pass
class Market(Agent): pass
try: find_class("Market",[Market]); B(False,"clash accepted")
except AttributeError: pass
print("bad total",bad)
