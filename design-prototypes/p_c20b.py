import random, warnings, itertools, math
warnings.simplefilter("ignore")
import pams; print(pams.__file__)
from pams.market import Market
from pams.index_market import IndexMarket
from pams.agents import MarketMakerAgent, ArbitrageAgent, MarketShareFCNAgent
from pams.order import Order, LIMIT_ORDER, MARKET_ORDER
class Sim:
    def __init__(s): s.name2market={}; s.id2market={}
bad=0
def B(c,m):
    global bad
    if not c:
        bad+=1
        if bad<10: print("BAD",m)
def mk(sim,mid,fund,quotes,cls=Market,shares=10,trade=None):
    m=cls(mid,None,sim,"m%d"%mid); m.setup({"tickSize":0.125,"marketPrice":100.0,"outstandingShares":shares}); m._is_running=True; m._update_time(float(fund))
    sim.name2market[m.name]=m; sim.id2market[mid]=m
    if trade is not None:
        m._add_order(Order(9,mid,True,LIMIT_ORDER,1,price=float(trade))); m._add_order(Order(9,mid,False,LIMIT_ORDER,1,price=float(trade))); m._execution()
    if quotes=="none": pass
    elif quotes=="mo_top":
        m._add_order(Order(9,mid,True,MARKET_ORDER,1)); m._add_order(Order(9,mid,True,LIMIT_ORDER,1,price=99.0)); 
    else:
        b,a=quotes; m._add_order(Order(9,mid,True,LIMIT_ORDER,1,price=float(b))); m._add_order(Order(9,mid,False,LIMIT_ORDER,1,price=float(a)))
    return m
n=0
# market maker
for q0,q1 in itertools.product(["none","mo_top",(99,101),(98,103)],repeat=2):
  for fund in (90,100):
    for spread in (2**-6,0.125):
      for ttl in (None,1,3):
        for acc in ([0],[0,1]):
            sim=Sim(); m0=mk(sim,0,fund,q0); m1=mk(sim,1,100,q1)
            a=MarketMakerAgent(5,random.Random(0),sim,"mm")
            st={"cashAmount":1,"assetVolume":1,"targetMarket":"m0","netInterestSpread":spread}
            if ttl: st["orderTimeLength"]=ttl
            a.setup(st,acc); orders=a.submit_orders([m0,m1]); n+=1
            bids=[x.get_best_buy_price() for x in (m0,m1) if x.market_id in acc and x.get_best_buy_price() is not None]
            asks=[x.get_best_sell_price() for x in (m0,m1) if x.market_id in acc and x.get_best_sell_price() is not None]
            base=(max(bids)+min(asks))/2 if bids and asks else m0.get_market_price()
            B(len(orders)==2 and orders[0].is_buy!=orders[1].is_buy,"mm count")
            bo=[o for o in orders if o.is_buy][0]; so=[o for o in orders if not o.is_buy][0]
            B(abs((bo.price+so.price)/2-base)<1e-9 and abs((so.price-bo.price)-fund*spread)<1e-9,("mm prices",q0,q1,acc,bo.price,so.price,base))
            for o in orders: B(o.agent_id==5 and o.market_id==0 and o.volume==1 and o.ttl==(ttl or 2) and o.kind==LIMIT_ORDER,"mm wf")
print("mm",n,bad)
# arbitrage
for ncomp in (2,3):
  for prices in itertools.product([98,100,102],repeat=ncomp):
    for ip in (97,99,100,101,103,100.5):
      for thr in (0.5,1.0):
        for v in (1,3):
          for running in itertools.product([True,False],repeat=2):
            sim=Sim(); comps=[mk(sim,i,100,"none",trade=prices[i]) for i in range(ncomp)]
            idx=IndexMarket(ncomp,None,sim,"idx"); idx.setup({"tickSize":0.125,"marketPrice":100.0,"markets":[c.name for c in comps]}); idx._is_running=True; idx._update_time(100.0)
            idx._add_order(Order(9,ncomp,True,LIMIT_ORDER,1,price=float(ip))); idx._add_order(Order(9,ncomp,False,LIMIT_ORDER,1,price=float(ip))); idx._execution()
            idx._is_running=running[0]; comps[0]._is_running=running[1]
            a=ArbitrageAgent(7,random.Random(0),sim,"arb"); a.setup({"cashAmount":1,"assetVolume":1,"orderVolume":v,"orderThresholdPrice":thr},list(range(ncomp+1)))
            orders=a.submit_orders(comps+[idx]); n+=1
            ci=sum(prices)/ncomp; gap=ip-ci
            if not all(running) or abs(gap)<=thr: B(orders==[],("arb should not act",prices,ip,thr,running,orders))
            else:
                B(len(orders)==ncomp+1,"arb count")
                io=[o for o in orders if o.market_id==ncomp]; co=[o for o in orders if o.market_id!=ncomp]
                B(len(io)==1 and io[0].volume==ncomp*v and io[0].is_buy==(ip<ci),("arb index leg",prices,ip))
                B(sorted(o.market_id for o in co)==list(range(ncomp)) and all(o.volume==v and o.is_buy!=io[0].is_buy for o in co),"arb comp legs")
print("arb",n,bad)
