import itertools, copy, signal
import pams
from pams.utils.json_extends import json_extends
names=["A","B","C"]; targets=names+["Z"]; EXC=["x"]
class TO(Exception): pass
def h(*a): raise TO()
signal.signal(signal.SIGALRM,h)
def ref(whole,start,target,excl):
    res={k:v for k,v in target.items() if k!="extends"}; hist=[start]; cur=target
    while "extends" in cur:
        par=cur["extends"]
        if par not in whole: raise ValueError
        if par in hist: raise ValueError
        hist.append(par); cur=whole[par]
        for k,v in cur.items():
            if k!="extends" and k not in excl and k not in res: res[k]=v
    return res
n=0; fails={}
for ext in itertools.product([None]+targets, repeat=3):
    for keys in itertools.product([0,1],repeat=9):
        whole={}
        for i,nm in enumerate(names):
            d={}
            if ext[i] is not None: d["extends"]=ext[i]
            for j,k in enumerate(["p","q","x"]):
                if keys[i*3+j]: d[k]=f"{nm}.{k}"
            whole[nm]=d
        for nm in names:
            w0=copy.deepcopy(whole)
            try: exp=("ok",ref(whole,nm,whole[nm],EXC))
            except ValueError: exp=("err",)
            signal.setitimer(signal.ITIMER_REAL,0.5)
            try: got=("ok",json_extends(whole,nm,whole[nm],EXC))
            except ValueError: got=("err",)
            except TO: got=("hang",)
            finally: signal.setitimer(signal.ITIMER_REAL,0)
            n+=1
            if exp!=got: fails.setdefault(got[0]+" vs "+exp[0],(ext,nm))
            if whole!=w0: fails.setdefault("mutated",(ext,nm))
    if fails.get("hang vs err"): break
print(pams.__file__,"cases",n,"fails",fails)
