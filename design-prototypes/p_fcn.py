import random, warnings, math, itertools
warnings.simplefilter("ignore")
import pams
from pams.market import Market
from pams.agents import FCNAgent
from pams.order import Order, LIMIT_ORDER
class Sim: pass
class StubR(random.Random):
    def __init__(s,g=0.0): super().__init__(0); s.g=g
    def gauss(s,mu=0.0,sigma=1.0): return mu+sigma*s.g
def mkmarket(hist, fund):
    m=Market(0,None,None,"m0"); m.setup({"tickSize":0.125,"marketPrice":hist[0]}); m._is_running=True
    for p in hist:
        m._update_time(fund)
        m._add_order(Order(9,0,True,LIMIT_ORDER,1,price=float(p))); m._add_order(Order(9,0,False,LIMIT_ORDER,1,price=float(p))); m._execution()
    return m
n=0; fails={}
for L in (1,2,3):
 for hist in itertools.product([96,100,104],repeat=L):
  for fund in (90,100,110):
    m=mkmarket(hist,float(fund))
    for wf,wc,wn in itertools.product([0,1,3],repeat=3):
      if wf+wc+wn==0: continue
      for ns,g,win,mr,k in itertools.product([0,2**-7],[-2,0,2],[1,2,5],[None,1,4],[0,0.125,0.5]):
        a=FCNAgent(3,StubR(g),Sim(),"a")
        st={"cashAmount":100,"assetVolume":1,"fundamentalWeight":wf,"chartWeight":wc,"noiseWeight":wn,"noiseScale":ns,"timeWindowSize":win,"orderMargin":k}
        if mr: st["meanReversionTime"]=mr
        a.setup(st,[0]); orders=a.submit_orders([m]); n+=1
        t=m.get_time(); p=m.get_market_price(); tw=min(t,win)
        Fd=math.log(fund/p)/max(mr if mr else win,1); C=math.log(p/m.get_market_price(t-tw))/max(tw,1); N=ns*g
        r=(wf*Fd+wc*C+wn*N)/(wf+wc+wn); ph=p*math.exp(r*win)
        ok=True
        if abs(ph-p)<=1e-12*p: continue   # knife edge: skip
        if ph>p: ok=len(orders)==1 and orders[0].is_buy and abs(orders[0].price-ph*(1-k))<1e-9*ph
        else: ok=len(orders)==1 and (not orders[0].is_buy) and abs(orders[0].price-ph*(1+k))<1e-9*ph
        if not ok: fails.setdefault("fcn",(hist,fund,wf,wc,wn,ns,g,win,mr,k))
print(pams.__file__,"cases",n,"fails",fails)
