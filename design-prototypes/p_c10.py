import sys, time
sys.path.insert(0,"/verif/design-prototypes")
import proto_r as P
from proto_r import *
def check_C10_full(w):
    ev=w.ev
    # ground truth incl expiries: ExpirationLog written during clock events
    truth=[]; 
    writes=[(i,e[1]) for i,e in enumerate(ev) if e[0] in("lw",)]
    direct=[(i,e[1]) for i,e in enumerate(ev) if e[0]=="lwd"]
    procs=[(i,e[1]) for i,e in enumerate(ev) if e[0]=="lp"]
    # exactly-once processing of every written log, same order
    if [id(l) for _,l in procs if not isinstance(l,(MarketStepBeginLog,MarketStepEndLog))]!=[id(l) for _,l in writes]: return "C10 processed != written"
    # step logs: processed immediately after lwd
    for i,l in direct:
        if not (i+1<len(ev) and ev[i+1][0]=="lp" and ev[i+1][1] is l): return "C10 step log not synchronous"
    # structure
    names=[type(l).__name__ for _,l in procs]
    sim=w.runner.simulator
    if names[0]!="SimulationBeginLog" or names[-1]!="SimulationEndLog": return "C10 sim begin/end"
    if names.count("SessionBeginLog")!=len(sim.sessions) or names.count("SessionEndLog")!=len(sim.sessions): return "C10 session records"
    steps=sum(s.iteration_steps for s in sim.sessions)
    if names.count("MarketStepBeginLog")!=steps*len(sim.markets) or names.count("MarketStepEndLog")!=steps*len(sim.markets): return "C10 step records"
    # flush: every written non-step record is processed before any non-logger event that follows
    # the write of the next boundary record
    isb=lambda x: isinstance(x,(SessionBeginLog,SessionEndLog,SimulationEndLog,SimulationBeginLog))
    pos={id(l):i for i,l in procs}
    for wi,l in writes:
        nxtw=[i for i,x in writes if i>=wi and isb(x)]
        if not nxtw: return "C10 no boundary after record"
        b=nxtw[0]
        after=[i for i in range(b+1,len(ev)) if ev[i][0] not in("lw","lp","lwd")]
        limit=after[0] if after else len(ev)
        if pos[id(l)]>limit: return "C10 record not processed by the next session boundary"
    # expiries: ground truth from books? compare count of ExpirationLog with orders that expired: skip (market-level engine)
    return P.check_C10(w)
if __name__=="__main__":
    print(pams.__file__)
    S=lambda n,steps,pl,ex,**k: dict(sessionName=n,iterationSteps=steps,withOrderPlacement=pl,withOrderExecution=ex,withPrint=False,**k)
    cfg=P.mkcfg([S(0,2,True,False,maxNormalOrders=2,maxHighFrequencyOrders=1,highFrequencySubmitRate=0.5),S(1,3,True,True,maxNormalOrders=2,maxHighFrequencyOrders=1,highFrequencySubmitRate=0.5)],nm=2)
    t0=time.time(); n,f=P.explore(cfg,[check_C10_full],2); print("C10 full runs",n,"t",round(time.time()-t0,1),"fails",f)
