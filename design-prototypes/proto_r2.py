# throw-away: C14/C15/C16 acceptors on top of proto_r
import sys, copy, time
import proto_r as P
from proto_r import *
MENU2=[None,"b100","s100","b125","s125","b150","s150","b75","s75","b100m1","s100m1","can"]
def submit(s,markets):
    c=MENU2[P.W.ch.choose("menu",len(MENU2))]; s.mine=getattr(s,"mine",[]); out=[]
    if c and c!="can":
        mk=1 if c.endswith("m1") else 0; c2=c.replace("m1","")
        if mk<len(markets): out=[Order(s.agent_id,mk,c2[0]=="b",LIMIT_ORDER,1,price=float(c2[1:]),ttl=None)]
    elif c=="can":
        live=[o for o in s.mine if o.placed_at is not None and not o.is_canceled]
        out=[Cancel(live[0])] if live else []
    s.mine+=[o for o in out if isinstance(o,Order)]
    P.W.rec("consult",s.agent_id,len(out),markets[0].get_time(),[ (o.market_id,o.is_buy,o.price,o.volume,o.ttl,o.kind) for o in out if isinstance(o,Order)]); return out
P.SA.submit_orders=submit; P.SH.submit_orders=submit
class PM2(P.PM):
    def _update_time(s,*a,**k):
        super()._update_time(*a,**k)
P_run=P.run
def obs_logger():
    class RL2(P.RL):
        def write_and_direct_process(s,log):
            if isinstance(log,(MarketStepBeginLog,MarketStepEndLog)):
                P.W.rec("steplog",type(log).__name__,log.market.market_id,log.market.get_time(),log.market.is_running,log.session.with_order_execution,log.session.session_id)
            super().write_and_direct_process(log)
    return RL2
P.RL=obs_logger()
def check_C16(w,cfg,rules):
    # rules: list of (targets(list of ids), rate, L)
    sim=w.runner.simulator; sessions=sim.sessions
    def sess_of(t):
        for s in sessions:
            if s.session_start_time<=t<s.session_start_time+s.iteration_steps: return s
    conf_exec={s.session_id:cfg["simulation"]["sessions"][i]["withOrderExecution"] for i,s in enumerate(sessions)}
    st=[dict(targets=r[0],rate=r[1],L=r[2],count=0,halted=None) for r in rules]  # halted=(market,h,session_id)
    mp={m.market_id:100.0 for m in sim.markets}; anytrade={m.market_id:False for m in sim.markets}
    running={}
    for e in w.ev:
        if e[0]=="steplog" and e[1]=="MarketStepBeginLog":
            mk,t,isrun,sflag,sid=e[2],e[3],e[4],e[5],e[6]
            exp=conf_exec[sid]
            for r in st:
                if r["halted"] and r["halted"][0]==mk:
                    hm,h,hs=r["halted"]
                    if hs!=sid: r["halted"]=None       # session over: new session's own flag rules
                    elif t>h+r["L"]: r["halted"]=None  # resumed
                    else: exp=False
            if isrun!=exp: return "C16 is_running=%s expected %s at begin of step %d market %d"%(isrun,exp,t,mk)
            running[mk]=isrun
        elif e[0]=="steplog":
            mk,t,isrun=e[2],e[3],e[4]
            running[mk]=isrun
        elif e[0]=="round":
            mk=e[1]
            if e[2]:
                if not running.get(mk,True): return "C16 fill on stopped market"
                for r in st:
                    if r["halted"] and r["halted"][0]==mk: return "C16 fill on halted market %d"%mk
                price=e[2][-1].price; t=e[2][-1].time
                p0=price if t==0 else sim.id2market[mk].get_market_price(0)
                for r in st:
                    if mk in r["targets"] and not any(x["halted"] and x["halted"][0]==mk for x in st):
                        if abs(p0-price)>=abs(p0*r["rate"]*(r["count"]+1)):
                            r["halted"]=(mk,t,sess_of(t).session_id); r["count"]+=1; running[mk]=False
    return None
def check_C15(w,cfg,targets,rate,tick=1.0):
    lo,hi=100*(1-rate),100*(1+rate)
    sub=[]  # submitted order descriptors in accept order: match consult batches to acc events via object
    for e in w.ev:
        if e[0]=="acc":
            l=e[2]
    # compare each accepted log with what agent asked: use order object's original price recorded at consult
    asked={}
    # we recorded descriptors per consult; rebuild mapping by sequence per agent
    per_agent={}
    for e in w.ev:
        if e[0]=="consult":
            for d in e[4]: per_agent.setdefault(e[1],[]).append(d)
    idx={a:0 for a in per_agent}
    for e in w.ev:
        if e[0]=="acc":
            l=e[2]; d=per_agent[l.agent_id][idx[l.agent_id]]; idx[l.agent_id]+=1
            p=d[2]
            if l.market_id in targets and p is not None:
                exp=min(max(p,lo),hi)
            else: exp=p
            if l.price!=exp: return "C15 accepted %s for asked %s on market %d (expected %s)"%(l.price,p,l.market_id,exp)
        if e[0]=="round":
            for f in e[2]:
                if f.market_id in targets and not (lo-tick<=f.price<=hi+tick): return "C15 fill outside band"
def explore2(cfg,checks,bound):
    return P.explore(cfg,checks,bound)
if __name__=="__main__":
    print(pams.__file__); bound=int(sys.argv[1])
    S=lambda n,steps,pl,ex,**k: dict(sessionName=n,iterationSteps=steps,withOrderPlacement=pl,withOrderExecution=ex,withPrint=False,**k)
    for L in (1,2):
      for sess in ([S(0,6,True,True,maxNormalOrders=2,events=["H"])],[S(0,2,True,False,maxNormalOrders=2),S(1,5,True,True,maxNormalOrders=2,events=["H"])],[S(0,3,True,True,maxNormalOrders=2,events=["H"]),S(1,3,True,True,maxNormalOrders=2)]):
        cfg=P.mkcfg(sess,nn=2,nh=0,nm=2,events={"H":{"class":"TradingHaltRule","targetMarkets":["M0"],"triggerChangeRate":0.25,"haltingTimeLength":L}})
        t0=time.time(); n,f=P.explore(cfg,[P.check_C10,P.check_C11,P.check_C05,lambda w,cfg=cfg,L=L:check_C16(w,cfg,[([0],0.25,L)])],bound)
        print("C16 L",L,"sessions",[(s["iterationSteps"],s["withOrderExecution"]) for s in sess],"runs",n,"t",round(time.time()-t0,1),"fails",f)
    cfg=P.mkcfg([S(0,4,True,True,maxNormalOrders=2,events=["H","H2"])],nn=2,nh=0,nm=2,events={"H":{"class":"TradingHaltRule","targetMarkets":["M0"],"triggerChangeRate":0.25,"haltingTimeLength":2},"H2":{"class":"TradingHaltRule","targetMarkets":["M1"],"triggerChangeRate":0.25,"haltingTimeLength":1}})
    n,f=P.explore(cfg,[lambda w,cfg=cfg:check_C16(w,cfg,[([0],0.25,2),([1],0.25,1)])],bound); print("C16 two rules runs",n,"fails",f)
    for tg in ([0],[1],[0,1]):
        cfg=P.mkcfg([S(0,1,True,False,maxNormalOrders=2),S(1,2,True,True,maxNormalOrders=2,events=["P"])],nn=2,nh=0,nm=2,events={"P":{"class":"PriceLimitRule","targetMarkets":["M%d"%i for i in tg],"triggerChangeRate":0.25}})
        n,f=P.explore(cfg,[lambda w,cfg=cfg,tg=tg:check_C15(w,cfg,tg,0.25)],bound); print("C15 targets",tg,"runs",n,"fails",f)
