import sys, time, random
sys.path.insert(0,"/verif/design-prototypes")
import proto_r as P
from proto_r import *
from pams.index_market import IndexMarket
from pams.simulator import Simulator
class PI(P.PM.__mro__[0].__bases__[0] if False else IndexMarket):
    def _add_order(s,*a,**k):
        o=k.get("order",a[0] if a else None); l=super()._add_order(*a,**k); P.W.rec("acc",s.market_id,l,o); return l
    def _cancel_order(s,*a,**k):
        l=super()._cancel_order(*a,**k); P.W.rec("can",s.market_id,l); return l
    def _execution(s):
        ls=super()._execution(); P.W.rec("round",s.market_id,ls); return ls
    def _update_time(s,*a,**k):
        super()._update_time(*a,**k)
        comps=s.get_components(); tot=sum(c.outstanding_shares for c in comps)
        exp=sum(c.get_fundamental_price()*c.outstanding_shares for c in comps)/tot
        P.W.rec("idxclock",s.market_id,s.time,s.get_fundamental_price(),exp)
MENU=[None,"b101m0","s99m0","b103m1","s97m1","b100m2","s100m2"]
def submit(s,markets):
    c=MENU[P.W.ch.choose("menu",len(MENU))]; out=[]
    if c: out=[Order(s.agent_id,int(c[-1]),c[0]=="b",LIMIT_ORDER,1,price=float(c[1:-2]),ttl=None)]
    P.W.rec("consult",s.agent_id,len(out),markets[0].get_time()); 
    # observation: index at all times
    for m in markets:
        if isinstance(m,IndexMarket):
            comps=m.get_components(); tot=sum(x.outstanding_shares for x in comps)
            for t in range(m.get_time()+1):
                exp=sum(x.get_market_price(t)*x.outstanding_shares for x in comps)/tot
                P.W.rec("idx",t,m.get_index(t),m.get_market_index(t),exp)
    return out
P.SA.submit_orders=submit
def check_C17(w):
    for e in w.ev:
        if e[0]=="idx" and not (abs(e[2]-e[4])<1e-9 and abs(e[3]-e[4])<1e-9): return "C17 index %s at time %d expected %s"%(e[2],e[1],e[4])
        if e[0]=="idxclock" and abs(e[3]-e[4])>1e-9*abs(e[4]): return "C17 index fundamental"
if __name__=="__main__":
    print(pams.__file__)
    S=lambda n,steps,pl,ex,**k: dict(sessionName=n,iterationSteps=steps,withOrderPlacement=pl,withOrderExecution=ex,withPrint=False,**k)
    for shares,ncomp in (([1,2],2),([2,5],2),([1,2,5],3)):
        cfg={"simulation":{"markets":["C%d"%i for i in range(ncomp)]+["I"],"agents":["A"],"sessions":[S(0,4,True,True,maxNormalOrders=2,events=["F"])]},
          "F":{"class":"FundamentalPriceShock","target":"C0","triggerTime":1,"priceChangeRate":0.5},
          "I":{"class":"PI","tickSize":1.0,"marketPrice":100.0,"markets":["C%d"%i for i in range(ncomp)]},
          "A":{"class":"SA","numAgents":2,"markets":["C%d"%i for i in range(ncomp)]+["I"],"cashAmount":1000,"assetVolume":10}}
        for i in range(ncomp): cfg["C%d"%i]={"class":"PM","tickSize":1.0,"marketPrice":100.0,"outstandingShares":shares[i],"fundamentalDrift":0.0078125}
        def run(cfg,prefix):
            P.W=P.World(prefix); r=SequentialRunner(copy.deepcopy(cfg),P.CR(),P.RL()); [r.class_register(c) for c in (P.PM,PI,P.SA)]
            r._setup(); P.W.runner=r; P.W.end0={}
            try: r._run(); P.W.exc=None
            except Exception as e: P.W.exc=e
            return P.W
        P.run=run
        t0=time.time(); n,f=P.explore(cfg,[check_C17],3 if ncomp==2 else 2); print("C17 shares",shares,"runs",n,"t",round(time.time()-t0,1),"fails",f)
