import math, warnings, sys
from fractions import Fraction as F
warnings.simplefilter("ignore")
import pams
from pams.market import Market
from pams.order import Order, LIMIT_ORDER
def accepted(tick, price, is_buy):
    m = Market(0, None, None, "m"); m.setup({"tickSize":tick,"marketPrice":100.0}); m._update_time(100.0)
    o=Order(0,0,is_buy,LIMIT_ORDER,1,price=price); m._add_order(o); return o.price
fails={}; n=0
def cands(tick):
    c=set()
    for k in list(range(0,40))+[1000,12345,30000000]:
        g=k*tick; c|={g,math.nextafter(g,math.inf),math.nextafter(g,-math.inf),g+tick/2,g+tick/4,g+tick*0.75}
    return sorted(x for x in c if x>2**-20)
for tick,exact in [(0.125,1),(0.25,1),(0.5,1),(1.0,1),(2.0,1),(3.0,1),(5.0,1),(10.0,1),(100.0,1),(0.1,0),(0.01,0),(0.001,0),(0.00001,0)]:
    ps=cands(tick)+([j/32 for j in range(1,1281)] if exact else [])
    for p in ps:
        for is_buy in (True,False):
            a=accepted(tick,p,is_buy); n+=1
            ft,fp,fa=F(tick),F(p),F(a); ulp=F(math.ulp(p)); slack=0 if exact else 4*ulp
            ongrid_exact=(fp/ft).denominator==1
            why=None
            if exact:
                if ongrid_exact:
                    if a!=p: why="on-grid price changed"
                else:
                    if is_buy and fa>fp: why="buy moved up"
                    if not is_buy and fa<fp: why="sell moved down"
                    if abs(fa-fp)>=ft: why="moved by a tick or more"
                    if (fa/ft).denominator!=1: why="result off grid"
            else:
                if p%tick==0:
                    if abs(fa-fp)>slack: why="float-on-grid price changed"
                else:
                    if is_buy and fa>fp+slack: why="buy moved up"
                    if not is_buy and fa<fp-slack: why="sell moved down"
                    if abs(fa-fp)>=ft+slack: why="moved by more than a tick"
                    k=round(fa/ft)
                    if a!=k*tick: why="result is not the float of a grid point"
            if why: fails.setdefault((why,exact),(tick,p,is_buy,a))
print(pams.__file__,"cases",n,"fails",fails)
