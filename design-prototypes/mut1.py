import json, subprocess, os, sys
C=json.load(open("/verif/mutants/candidates.json")); base="/root/vf-scratch/m"
for n in sys.argv[2:]:
    m=C[n]; path=os.path.join(base,m["file"]); src=open(path).read(); assert m["old"] in src
    open(path,"w").write(src.replace(m["old"],m["new"],1))
    try: p=subprocess.run(["/venv/bin/python",sys.argv[1]],capture_output=True,text=True,env={**os.environ,"PYTHONPATH":base+":/root/vf-scratch","PYTHONDONTWRITEBYTECODE":"1"},cwd="/root/vf-scratch")
    finally: open(path,"w").write(src)
    print("==",n); print("\n".join(l[:260] for l in p.stdout.splitlines() if "chunk" in l)); print(p.stderr[-300:] if p.returncode else "")
