# C07 mini-family: two market groups + random assetVolume; TestAgent / MarketShareFCNAgent on two markets
import sys, json, random, hashlib, warnings, copy, os, subprocess
warnings.simplefilter("ignore")
CFG={"simulation":{"markets":["MA","MB"],"agents":["T","S","F"],"sessions":[
  {"sessionName":0,"iterationSteps":5,"withOrderPlacement":True,"withOrderExecution":False,"withPrint":False,"maxNormalOrders":3},
  {"sessionName":1,"iterationSteps":10,"withOrderPlacement":True,"withOrderExecution":True,"withPrint":False,"maxNormalOrders":3}]},
 "MA":{"class":"Market","tickSize":0.01,"marketPrice":300.0,"fundamentalVolatility":0.001},
 "MB":{"class":"Market","tickSize":0.01,"marketPrice":300.0,"fundamentalVolatility":0.001},
 "T":{"class":"TestAgent","numAgents":3,"markets":["MA","MB"],"cashAmount":[1000,2000],"assetVolume":[10,50]},
 "S":{"class":"MarketShareFCNAgent","numAgents":3,"markets":["MA","MB"],"cashAmount":10000,"assetVolume":[10,50],
      "fundamentalWeight":{"expon":[1.0]},"chartWeight":{"expon":[0.2]},"noiseWeight":{"expon":[1.0]},"noiseScale":0.001,"timeWindowSize":[3,6],"orderMargin":[0.0,0.1]},
 "F":{"class":"FCNAgent","numAgents":3,"markets":["MA","MB"],"cashAmount":10000,"assetVolume":[10,50],
      "fundamentalWeight":{"expon":[1.0]},"chartWeight":{"expon":[0.2]},"noiseWeight":{"expon":[1.0]},"noiseScale":0.001,"timeWindowSize":[3,6],"orderMargin":[0.0,0.1]}}
if len(sys.argv)>1 and sys.argv[1]=="child":
    import pams, numpy as np
    from pams.runners.sequential import SequentialRunner
    from pams.logs.base import Logger
    if sys.argv[2]=="perturb": random.seed(999); [random.random() for _ in range(50)]; np.random.seed(5)
    class Rec(Logger):
        def __init__(s): super().__init__(); s.h=hashlib.sha256()
        def write(s,log):
            d={k:repr(v) for k,v in vars(log).items() if k not in("simulator","session","market")}
            s.h.update((type(log).__name__+json.dumps(d,sort_keys=True)).encode()); super().write(log)
    out=[]
    for seed in (0,1,2):
        lg=Rec(); r=SequentialRunner(copy.deepcopy(CFG),random.Random(seed),lg); r._setup(); r._run()
        for a in r.simulator.agents: lg.h.update(repr((a.cash_amount,sorted(a.asset_volumes.items()))).encode())
        out.append(lg.h.hexdigest()[:12])
    print(pams.__file__,out)
else:
    res=set()
    for hs,mode in (("0","plain"),("1","plain"),("4242","plain"),("7","perturb")):
        p=subprocess.run([sys.executable,__file__,"child",mode],capture_output=True,text=True,env={**os.environ,"PYTHONHASHSEED":hs})
        line=[l for l in p.stdout.splitlines() if "pams" in l]
        res.add(line[-1] if line else "ERR "+p.stderr[-200:])
    print("distinct outcomes",len(res),"fails",{} if len(res)==1 else {"digest differs":sorted(res)})
