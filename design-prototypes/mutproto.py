import json, subprocess, os, sys, shutil
C=json.load(open("/verif/mutants/candidates.json"))
names=sys.argv[2:]
base="/root/vf-scratch/m"
for n in names:
    m=C[n]; path=os.path.join(base,m["file"]); src=open(path).read()
    assert m["old"] in src, n
    open(path,"w").write(src.replace(m["old"],m["new"]) if m.get("replace_all") else src.replace(m["old"],m["new"],1))
    try:
        p=subprocess.run(["/venv/bin/python",sys.argv[1],os.environ.get("ARG","2")],capture_output=True,text=True,env={**os.environ,"PYTHONPATH":base,"PYTHONDONTWRITEBYTECODE":"1"},cwd="/root/vf-scratch")
    finally: open(path,"w").write(src)
    lines=[l for l in p.stdout.splitlines() if "fails" in l]
    det=[l[:170] for l in lines if not l.rstrip().endswith("fails {}")]
    print("==",n,"DETECTED" if det else "MISSED", (p.stderr[-300:] if p.returncode else ""))
    for d in det[:3]: print("    ",d)
