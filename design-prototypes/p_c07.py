import sys, json, random, hashlib, warnings, copy, os
warnings.simplefilter("ignore")
sys.path.insert(0,"/repo")
from pams.runners.sequential import SequentialRunner
from pams.logs.base import Logger
import numpy as np
class Rec(Logger):
    def __init__(s): super().__init__(); s.h=hashlib.sha256()
    def write(s, log):
        d={k:(repr(v) if not isinstance(v,(int,float,str,bool,type(None))) else v) for k,v in vars(log).items() if k not in("simulator","session","market")}
        s.h.update((type(log).__name__+json.dumps(d,sort_keys=True)).encode()); super().write(log)
def shrink(cfg):
    cfg=copy.deepcopy(cfg)
    for k,v in cfg.items():
        if isinstance(v,dict) and "numAgents" in v: v["numAgents"]=min(v["numAgents"],8)
    for s in cfg["simulation"]["sessions"]: s["iterationSteps"]=min(s["iterationSteps"],30)
    for k,v in cfg.items():
        if isinstance(v,dict) and "triggerTime" in v: v["triggerTime"]=min(v["triggerTime"],5)
        if isinstance(v,dict) and "haltingTimeLength" in v: v["haltingTimeLength"]=30
    return cfg
mode=sys.argv[1]
if mode=="perturb":
    random.seed(12345); [random.random() for _ in range(100)]; np.random.seed(7); np.random.rand(10)
out={}
import glob,re
for path in sorted(glob.glob("/repo/samples/*/config*.json")):
    if "market_share" in path: continue   # needs user class ExtendedMarket
    txt=open(path).read()
    cfg=shrink(json.loads(txt))
    for seed in (0,1):
        lg=Rec(); c0=copy.deepcopy(cfg)
        r=SequentialRunner(cfg, random.Random(seed), lg)
        if "user_class" in path:
            sys.path.insert(0,os.path.dirname(path)); 
            continue
        r._setup(); r._run()
        for m in r.simulator.markets: lg.h.update(repr((m.get_market_prices(),m.get_fundamental_prices(),m.get_executed_volumes())).encode())
        for a in r.simulator.agents: lg.h.update(repr((a.cash_amount,sorted(a.asset_volumes.items()))).encode())
        assert cfg==c0, "settings mutated "+path
        out[f"{os.path.basename(os.path.dirname(path))}/{os.path.basename(path)}#{seed}"]=lg.h.hexdigest()[:16]
print(json.dumps(out,sort_keys=True))
