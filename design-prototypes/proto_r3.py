import sys, time
import proto_r as P, proto_r2 as Q
from proto_r import *
PLAN={0:{1:"b125",2:"b150",3:"b150",4:"b150",5:"b150"},1:{1:"s100",2:"s150",3:"s150",4:"s150",5:"s150"}}
MENU3=["plan",None,"b100","s100","b125","s125","b150","s150","b100m1","s100m1","can"]
def submit(s,markets):
    c=MENU3[P.W.ch.choose("menu",len(MENU3))]; t=markets[0].get_time()
    if c=="plan": c=PLAN.get(s.agent_id,{}).get(t)
    s.mine=getattr(s,"mine",[]); out=[]
    if c and c!="can":
        mk=1 if c.endswith("m1") else 0; c2=c.replace("m1","")
        if mk<len(markets): out=[Order(s.agent_id,mk,c2[0]=="b",LIMIT_ORDER,1,price=float(c2[1:]),ttl=None)]
    elif c=="can":
        live=[o for o in s.mine if o.placed_at is not None and not o.is_canceled]
        out=[Cancel(live[0])] if live else []
    s.mine+=[o for o in out if isinstance(o,Order)]
    P.W.rec("consult",s.agent_id,len(out),t,[]); return out
P.SA.submit_orders=submit
HALTS=[0,0]
def c16(w,cfg,rules):
    r=Q.check_C16(w,cfg,rules)
    # witness: count runs with >=1 and >=2 halts (is_running False observed at begin logs)
    stops=set((e[2],e[3]) for e in w.ev if e[0]=="steplog" and e[1]=="MarketStepBeginLog" and not e[4] and e[5]==False and cfg["simulation"]["sessions"][e[6]]["withOrderExecution"])
    if stops: HALTS[0]+=1
    return r
if __name__=="__main__":
    print(pams.__file__); bound=int(sys.argv[1])
    S=lambda n,steps,pl,ex,**k: dict(sessionName=n,iterationSteps=steps,withOrderPlacement=pl,withOrderExecution=ex,withPrint=False,**k)
    for L,tg in ((1,["M0"]),(2,["M0"]),(1,["M0","M1"])):
      for sess in ([S(0,6,True,True,maxNormalOrders=2,events=["H"])],[S(0,1,True,False,maxNormalOrders=2,events=["H"]),S(1,5,True,True,maxNormalOrders=2)],[S(0,3,True,True,maxNormalOrders=2,events=["H"]),S(1,3,True,True,maxNormalOrders=2)]):
        cfg=P.mkcfg(sess,nn=2,nh=0,nm=2,events={"H":{"class":"TradingHaltRule","targetMarkets":tg,"triggerChangeRate":0.25,"haltingTimeLength":L}})
        HALTS[0]=0; t0=time.time(); n,f=P.explore(cfg,[P.check_C05,P.check_C11,lambda w,cfg=cfg,L=L,tg=tg:c16(w,cfg,[([int(x[1]) for x in tg],0.25,L)]),lambda w,cfg=cfg:P.check_C09(w,cfg) if False else None],bound)
        print("C16 L",L,tg,"sessions",[(s["iterationSteps"],s["withOrderExecution"]) for s in sess],"runs",n,"runs_with_halt",HALTS[0],"t",round(time.time()-t0,1),"fails",{k:v for k,v in f.items()})
