import random, numpy as np, math, itertools, sys
import pams
from pams.fundamentals import Fundamentals
from pams.market import Market
class Stub:
    def __init__(s,fn): s.fn=fn
    def standard_normal(s,size=None): return s.fn(size)
def mk(vols,drifts,corr,init,zfun,chunk=4):
    f=Fundamentals(prng=random.Random(0)); f._generate_chunk_size=chunk; f._np_prng=Stub(zfun)
    for i,(v,d) in enumerate(zip(vols,drifts)): f.add_market(i,init,d,v)
    for (i,j),c in corr.items(): f.set_correlation(i,j,c)
    return f
fails={}; n=0
def F(c,m,case):
    if not c: fails.setdefault(m,case)
VOL=[0,0.125,0.25,0.5]; DR=[-2**-6,0,2**-7]; CO=[-0.5,-0.25,0,0.5,0.75]
for nm in (1,2,3):
  for vols in itertools.product(VOL,repeat=nm):
    for drifts in itertools.product(DR,repeat=nm) if nm<3 else [tuple(DR[(i+k)%3] for i in range(nm)) for k in range(3)]:
      pairs=[(i,j) for i in range(nm) for j in range(i+1,nm) if vols[i]>0 and vols[j]>0]
      for cs in itertools.product(CO,repeat=len(pairs)):
        corr={p:c for p,c in zip(pairs,cs) if c!=0}
        C=np.eye(nm)
        for (i,j),c in corr.items(): C[i,j]=C[j,i]=c
        if np.linalg.eigvalsh(C).min()<=1e-9: continue
        n+=1; case=(vols,drifts,corr)
        vol_idx=[i for i in range(nm) if vols[i]>0]
        def lr(zfun,T=3):
            f=mk(vols,drifts,corr,100.0,zfun)
            P=[[f.get_fundamental_price(i,t) for t in range(T+1)] for i in range(nm)]
            for row in P:
                for x in row: F(x>0,"nonpositive",case)
            return np.array([[math.log(P[i][t+1]/P[i][t]) for t in range(T)] for i in range(nm)]),P
        base,P0=lr(lambda s: np.zeros(s))
        for i in range(nm):
            for t in range(4): F(abs(P0[i][t]-100.0*math.exp(drifts[i]*t))<=1e-12*P0[i][t]*max(1,t),"zero-noise path",case)
        A=np.zeros((nm,len(vol_idx)))
        for k,j in enumerate(vol_idx):
            def z(s,k=k):
                a=np.zeros(s); a[k,:]=1.0; return a
            r,_=lr(z); A[:,k]=r[:,0]-np.array(drifts)
        cov=np.array([[vols[i]*vols[j]*C[i,j] for j in range(nm)] for i in range(nm)])
        F(np.allclose(A@A.T,cov,atol=1e-12),"A A^T != cov",case)
        for zv in itertools.product([-1,0,1],repeat=len(vol_idx)):
            def z(s,zv=zv):
                a=np.zeros(s)
                for k,v in enumerate(zv): a[k,:]=v
                return a
            r,_=lr(z); F(np.allclose(r[:,0],np.array(drifts)+A@np.array(zv,dtype=float),atol=1e-12),"not affine",case)
print(pams.__file__,"param sets",n,"fails",fails)
# shock via Market.change_fundamental_price
class Sim: pass
sim=Sim(); sim.fundamentals=mk([0.0,0.0],[2**-7,0.0],{},100.0,lambda s: np.zeros(s))
m=Market(0,None,sim,"m"); m.setup({"tickSize":1.0,"marketPrice":100.0})
for t in range(3): m._update_time(sim.fundamentals.get_fundamental_price(0,t))
before=[sim.fundamentals.get_fundamental_price(0,t) for t in range(3)]
m.change_fundamental_price(1.5)
after=[sim.fundamentals.get_fundamental_price(0,t) for t in range(6)]
ok=after[:2]==before[:2] and abs(after[2]-before[2]*1.5)<1e-12 and abs(after[3]-after[2]*math.exp(2**-7))<1e-9 and abs(sim.fundamentals.get_fundamental_price(1,4)-100)<1e-12
print("shock continues from new level:",ok)
