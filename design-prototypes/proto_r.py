# throw-away prototype of Engine R with C09/C10/C11/C13 acceptors (design validation only)
import random, warnings, itertools, time, sys, copy
warnings.simplefilter("ignore")
import pams
from pams.runners.sequential import SequentialRunner
from pams.logs.base import *
from pams.agents import Agent, HighFrequencyAgent
from pams.market import Market
from pams.events import EventABC, EventHook
from pams.order import Order, LIMIT_ORDER, MARKET_ORDER, Cancel

class Chooser:
    def __init__(s,prefix): s.prefix=prefix; s.trace=[]
    def choose(s,kind,n):
        if n<=1: return 0
        i=len(s.trace); c=s.prefix[i] if i<len(s.prefix) else 0
        assert c<n,"divergence"
        s.trace.append((kind,n,c)); return c
W=None  # world
class World:
    def __init__(s,prefix): s.ch=Chooser(prefix); s.ev=[]; s.step=None
    def rec(s,*a): s.ev.append(a)
U=[2**-53,0.25,0.75,1-2**-53]
class CR(random.Random):
    def __init__(s): super().__init__(0); s.ctr=0
    def sample(s,pop,k):
        pop=list(pop); assert k==len(pop)
        perms=list(itertools.permutations(range(k)))
        p=perms[W.ch.choose("perm",len(perms))]; W.rec("sample",[getattr(x,"agent_id",None) for x in pop],p)
        return [pop[i] for i in p]
    def random(s):
        u=U[W.ch.choose("u",4)]; W.rec("u",u); return u
    def randint(s,a,b): s.ctr+=1; return s.ctr
class PM(Market):
    def _add_order(s,*a,**k):
        o=k.get("order",a[0] if a else None); l=super()._add_order(*a,**k); W.rec("acc",s.market_id,l,o); return l
    def _cancel_order(s,*a,**k):
        l=super()._cancel_order(*a,**k); W.rec("can",s.market_id,l); return l
    def _execution(s):
        ls=super()._execution(); W.rec("round",s.market_id,ls); return ls
    def _update_time(s,*a,**k):
        n0=len(s.logger.pend) if s.logger else 0
        super()._update_time(*a,**k); W.rec("clock",s.market_id,s.time)
MENU=[None,"b101","s99","b99","s101","mob","can","two"]
class SA(Agent):
    def submit_orders(s,markets):
        c=MENU[W.ch.choose("menu",len(MENU))]; s.mine=getattr(s,"mine",[]); out=[]
        if c in("b101","s99","b99","s101"): out=[Order(s.agent_id,0,c[0]=="b",LIMIT_ORDER,1,price=float(c[1:]),ttl=2)]
        elif c=="mob": out=[Order(s.agent_id,0,True,MARKET_ORDER,1)]
        elif c=="two": out=[Order(s.agent_id,0,True,LIMIT_ORDER,2,price=100.0,ttl=1),Order(s.agent_id,0,False,LIMIT_ORDER,1,price=100.0,ttl=1)]
        elif c=="can":
            live=[o for o in s.mine if o.placed_at is not None and not o.is_canceled]
            out=[Cancel(live[0])] if live else []
        s.mine+=[o for o in out if isinstance(o,Order)]
        W.rec("consult",s.agent_id,len(out),markets[0].get_time()); return out
    def submitted_order(s,log): W.rec("cb_sub",s.agent_id,log)
    def executed_order(s,log): W.rec("cb_exe",s.agent_id,log,s.cash_amount,dict(s.asset_volumes))
    def canceled_order(s,log): W.rec("cb_can",s.agent_id,log)
class SH(HighFrequencyAgent):
    submit_orders=SA.submit_orders; submitted_order=SA.submitted_order; executed_order=SA.executed_order; canceled_order=SA.canceled_order
class RL(Logger):
    def __init__(s): super().__init__(); s.pend=s.pending_logs
    def write(s,log): W.rec("lw",log); super().write(log)
    def bulk_write(s,logs):
        for l in logs: W.rec("lw",l)
        super().bulk_write(logs)
    def write_and_direct_process(s,log): W.rec("lwd",log); super().write_and_direct_process(log)
    def process(s,logs):
        for l in logs: W.rec("lp",l)
        super().process(logs)
class PE(EventABC):
    def setup(s,settings,*a,**k): s.specs=settings["hooks"]
    def hook_registration(s):
        hs=[]
        for (t,b,tm,flt) in s.specs:
            kw={}
            if flt=="inst0": kw["specific_instance"]=s.simulator.markets[0]
            if flt=="cls": kw["specific_class"]=Market
            hs.append(EventHook(s,t,b,time=tm,**kw))
        return hs
    def hooked_before_order(s,simulator,order): W.rec("hk","order",True,simulator.id2market[order.market_id].get_time(),order.market_id,order.placed_at)
    def hooked_after_order(s,simulator,order_log): W.rec("hk","order",False,order_log.time,order_log.market_id,None)
    def hooked_before_cancel(s,simulator,cancel): W.rec("hk","cancel",True,simulator.id2market[cancel.market_id].get_time(),cancel.market_id,None)
    def hooked_after_cancel(s,simulator,cancel_log): W.rec("hk","cancel",False,cancel_log.cancel_time,cancel_log.market_id,None)
    def hooked_after_execution(s,simulator,execution_log): W.rec("hk","execution",False,execution_log.time,execution_log.market_id,None)
    def hooked_before_session(s,simulator,session): W.rec("hk","session",True,session.session_start_time,None,session.session_id)
    def hooked_after_session(s,simulator,session): W.rec("hk","session",False,session.session_start_time+session.iteration_steps-1,None,session.session_id)
    def hooked_before_step_for_market(s,simulator,market): W.rec("hk","market",True,market.get_time(),market.market_id,None)
    def hooked_after_step_for_market(s,simulator,market): W.rec("hk","market",False,market.get_time(),market.market_id,None)

def mkcfg(sessions,nn=2,nh=1,events=None,nm=1):
    cfg={"simulation":{"markets":["M"],"agents":(["A"] if nn else [])+(["H"] if nh else []),"sessions":sessions},
     "M":{"class":"PM","tickSize":1.0,"marketPrice":100.0,"numMarkets":nm,"prefix":"M"},
     "A":{"class":"SA","numAgents":nn,"markets":["M"],"cashAmount":1000,"assetVolume":10},
     "H":{"class":"SH","numAgents":nh,"markets":["M"],"cashAmount":1000,"assetVolume":10}}
    cfg.update(events or {}); return cfg
def run(cfg,prefix):
    global W; W=World(prefix)
    r=SequentialRunner(copy.deepcopy(cfg),CR(),RL()); [r.class_register(c) for c in (PM,SA,SH,PE)]
    r._setup(); W.runner=r
    W.end0={a.agent_id:(a.cash_amount,dict(a.asset_volumes)) for a in r.simulator.agents}
    try: r._run(); W.exc=None
    except Exception as e: W.exc=e
    return W

def check_C10(w):
    truth=[]; 
    for e in w.ev:
        if e[0]=="acc": truth.append(("O",e[2]))
        elif e[0]=="can": truth.append(("C",e[2]))
        elif e[0]=="round": truth+= [("X",l) for l in e[2]]
    got=[e[1] for e in w.ev if e[0]=="lw" and isinstance(e[1],(OrderLog,CancelLog,ExecutionLog))]
    if [id(t[1]) for t in truth]!=[id(g) for g in got]: return "C10 stream mismatch truth=%d got=%d"%(len(truth),len(got))
    proc=[e[1] for e in w.ev if e[0]=="lp" and isinstance(e[1],(OrderLog,CancelLog,ExecutionLog))]
    if [id(x) for x in proc]!=[id(g) for g in got]: return "C10 processed mismatch"
def check_C11(w):
    exp=[]
    for e in w.ev:
        if e[0]=="acc": exp.append(("cb_sub",e[2].agent_id,id(e[2])))
        elif e[0]=="can": exp.append(("cb_can",e[2].agent_id,id(e[2])))
        elif e[0]=="round":
            for l in e[2]: exp+= [("cb_exe",l.buy_agent_id,id(l)),("cb_exe",l.sell_agent_id,id(l))]
    got=[(e[0],e[1],id(e[2])) for e in w.ev if e[0] in("cb_sub","cb_can","cb_exe")]
    if exp!=got: return "C11 mismatch"
def check_C09(w,cfg):
    sessions=cfg["simulation"]["sessions"]; sim=w.runner.simulator
    normal=[a.agent_id for a in sim.normal_frequency_agents]; hft=[a.agent_id for a in sim.high_frequency_agents]
    # split events by step using clock events of market 0
    steps=[]; cur=[]
    for e in w.ev:
        if e[0]=="clock" and e[1]==0:
            steps.append(cur); cur=[]
        else: cur.append(e)
    steps=steps[1:]  # drop pre-first-clock
    bounds=[]; t=0
    for s in sessions: bounds+= [s]*s["iterationSteps"]
    if len(steps)!=len(bounds): return "C09 step count %d vs %d"%(len(steps),len(bounds))
    for t,(evs,s) in enumerate(zip(steps,bounds)):
        cons=[e for e in evs if e[0]=="consult"]; accs=[e for e in evs if e[0] in("acc","can")]; fills=[l for e in evs if e[0]=="round" for l in e[2]]
        if not s["withOrderPlacement"]:
            if cons or accs: return "C09 placement off but consult/accept at %d"%t
            continue
        if not s["withOrderExecution"] and fills: return "C09 fill in no-exec step %d"%t
        # expected consult sequence
        it=iter(evs); seq=[e for e in evs if e[0] in("sample","consult","u","acc","can","round")]
        i=0
        def nxt(kind):
            nonlocal i
            if i<len(seq) and seq[i][0]==kind: i+=1; return seq[i-1]
            return None
        smp=nxt("sample")
        if smp is None: return "C09 no sample at step %d"%t
        order=[smp[1][j] for j in smp[2]]
        if sorted(order)!=sorted(normal): return "C09 sample pop"
        capN=s.get("maxNormalOrders",1); capH=s.get("maxHighFrequencyOrders",1); rate=s.get("highFrequencySubmitRate",1.0)
        n=0; batches=[]
        for a in order:
            if n>=capN: break
            c=nxt("consult")
            if c is None or c[1]!=a: return "C09 normal consult order at %d: expected %s got %s"%(t,a,c)
            if c[2]>0: n+=1; batches.append((a,c[2]))
        if nxt("consult") and False: pass
        smp2=nxt("sample")
        if smp2 is None: return "C09 no batch sample %d"%t
        perm=smp2[2]; batches=[batches[j] for j in perm] if len(perm)==len(batches) else None
        if batches is None: return "C09 batch sample size"
        for (a,k) in batches:
            for _ in range(k):
                e=nxt("acc") or nxt("can")
                if e is None: return "C09 missing accept"
                if s["withOrderExecution"]:
                    r=nxt("round")
                    if r is None or r[1]!=e[1]: return "C09 no round after accept at %d"%t
            u=nxt("u")
            if u is None: return "C09 no rate draw"
            if u[1]<rate:
                hs=nxt("sample")
                if hs is None: return "C09 no hft sample"
                horder=[hs[1][j] for j in hs[2]]; nh=0
                for h in horder:
                    if nh>=capH: break
                    c=nxt("consult")
                    if c is None or c[1]!=h: return "C09 hft consult order"
                    if c[2]>0:
                        nh+=1
                        for _ in range(c[2]):
                            e=nxt("acc") or nxt("can")
                            if e is None: return "C09 hft missing accept"
                            if s["withOrderExecution"]:
                                r=nxt("round")
                                if r is None or r[1]!=e[1]: return "C09 no round after hft accept"
        if i!=len(seq): return "C09 extra events at step %d: %s"%(t,[x[0] for x in seq[i:]])
def check_C05(w):
    sim=w.runner.simulator
    exp={k:[v[0],dict(v[1])] for k,v in w.end0.items()}
    for e in w.ev:
        if e[0]=="round":
            for l in e[2]:
                exp[l.buy_agent_id][0]-=l.price*l.volume; exp[l.sell_agent_id][0]+=l.price*l.volume
                exp[l.buy_agent_id][1][l.market_id]+=l.volume; exp[l.sell_agent_id][1][l.market_id]-=l.volume
        if e[0]=="cb_exe":
            if abs(e[3]-exp[e[1]][0])>1e-9 or e[4]!=exp[e[1]][1]: return "C05/C11 holdings at callback"
    for a in sim.agents:
        if abs(a.cash_amount-exp[a.agent_id][0])>1e-9 or a.asset_volumes!=exp[a.agent_id][1]: return "C05 final"
def check_C13(w,cfg):
    specs=cfg["E"]["hooks"]; sim=w.runner.simulator
    # occurrences
    occ=[]
    sessions=sim.sessions
    for e in w.ev:
        if e[0]=="acc": occ+= [("order",True,e[2].time,e[1]),("order",False,e[2].time,e[1])]
        elif e[0]=="can": occ+= [("cancel",True,e[2].cancel_time,e[1]),("cancel",False,e[2].cancel_time,e[1])]
        elif e[0]=="round": occ+= [("execution",False,l.time,e[1]) for l in e[2]]
    tot=0
    for s in sessions:
        occ+= [("session",True,s.session_start_time,None),("session",False,s.session_start_time+s.iteration_steps-1,None)]
        for t in range(s.session_start_time,s.session_start_time+s.iteration_steps):
            for m in sim.markets: occ+= [("market",True,t,m.market_id),("market",False,t,m.market_id)]
    from collections import Counter
    exp=Counter()
    for (ty,b,tm,flt) in specs:
        for o in occ:
            if o[0]!=ty or o[1]!=b: continue
            if tm is not None and o[2] not in tm: continue
            if ty=="market" and flt=="inst0" and o[3]!=0: continue
            exp[(o[0],o[1],o[2],o[3])]+=1
    got=Counter((e[1],e[2],e[3],e[4]) for e in w.ev if e[0]=="hk")
    if exp!=got: return "C13 mismatch exp-got=%s got-exp=%s"%(dict(exp-got),dict(got-exp))

def explore(cfg,checks,bound):
    n=0; fails={}
    def rec(prefix,dev):
        nonlocal n
        w=run(cfg,prefix); n+=1
        if w.exc is not None: fails.setdefault("EXC "+repr(w.exc),prefix)
        else:
            for c in checks:
                m=c(w)
                if m: fails.setdefault(m.split(" at ")[0][:60],list(prefix))
        tr=w.ch.trace
        if dev>=bound: return
        for i in range(len(prefix),len(tr)):
            for alt in range(1,tr[i][1]):
                rec([t[2] for t in tr[:i]]+[alt],dev+1)
    rec([],0); return n,fails

if __name__=="__main__":
    print(pams.__file__)
    bound=int(sys.argv[1])
    S=lambda n,steps,pl,ex,**k: dict(sessionName=n,iterationSteps=steps,withOrderPlacement=pl,withOrderExecution=ex,withPrint=False,**k)
    scen={
     "A": mkcfg([S(0,2,True,False,maxNormalOrders=2,maxHighFrequencyOrders=1,highFrequencySubmitRate=0.5),S(1,2,True,True,maxNormalOrders=1,maxHighFrequencyOrders=1,highFrequencySubmitRate=0.5)]),
     "B": mkcfg([S(0,1,False,False),S(1,3,True,True,maxNormalOrders=2,maxHighFrequencyOrders=2,highFrequencySubmitRate=1.0)],nn=2,nh=2),
     "C": mkcfg([S(0,2,True,True,maxNormalOrders=0,maxHighFrequencyOrders=1),S(1,2,True,True,maxNormalOrders=3,maxHighFrequencyOrders=0,highFrequencySubmitRate=0.0)],nn=3,nh=1),
    }
    for k,cfg in scen.items():
        t0=time.time(); n,f=explore(cfg,[check_C10,check_C11,check_C05,lambda w,cfg=cfg:check_C09(w,cfg)],bound)
        print("scenario",k,"runs",n,"t",round(time.time()-t0,1),"fails",f)
    # C13
    T=4
    specs=[]
    for ty in ("order","cancel","execution","session","market"):
        for b in (True,False):
            if ty=="execution" and b: continue
            for tm in (None,[],[0],[1],[2],[3],[1,3],[2,2]):
                for flt in ((None,"inst0") if ty=="market" else (None,)):
                    specs.append((ty,b,tm,flt))
    tot=0; allf={}
    for sp in specs:
        cfg=mkcfg([S(0,2,True,False,maxNormalOrders=2,events=["E"]),S(1,2,True,True,maxNormalOrders=2)],nn=2,nh=0,events={"E":{"class":"PE","hooks":[sp]}},nm=2)
        n,f=explore(cfg,[lambda w,cfg=cfg:check_C13(w,cfg)],min(bound,2)); tot+=n
        for k,v in f.items(): allf.setdefault((k[:80]),(sp,v))
    print("C13 specs",len(specs),"runs",tot,"fails",allf)
