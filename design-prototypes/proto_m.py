# throw-away prototype of Engine M with C01-C04, C08 monitors (design validation only)
import random, warnings, time, collections, sys, itertools, math
warnings.simplefilter("ignore")
import pams
from pams.market import Market
from pams.logs.base import *
from pams.order import Order, LIMIT_ORDER, MARKET_ORDER, Cancel
def K(o): return (0 if o.kind==MARKET_ORDER else 1, 0 if o.price is None else (-o.price if o.is_buy else o.price), o.placed_at, o.order_id)
class RL(Logger):
    def __init__(s): super().__init__(); s.got=[]
    def write(s,log): s.got.append(log)
    def bulk_write(s,logs): s.got+=list(logs)
class Viol(Exception): pass
def V(c,msg):
    if not c: raise Viol(msg)
class World:
    def __init__(s,continuous):
        s.lg=RL(); s.m=Market(0,None,None,"m",logger=s.lg); s.m.setup({"tickSize":1.0,"marketPrice":100.0}); s.m.chunk_size=4
        s.m._update_time(100.0); s.m._is_running=True; s.cont=continuous
        s.objs=[]; s.led={}  # order obj -> ledger
        s.mp=100.0; s.last=None; s.mid=None; s.any=False
    def books(s): return list(s.m.buy_order_book.priority_queue), list(s.m.sell_order_book.priority_queue)
    def live(s): 
        b,a=s.books(); return sorted(b+a,key=lambda o:(o.placed_at,o.order_id))
    def round(s):
        m=s.m; b0,a0=s.books(); pre={(o.is_buy,o.order_id):(o,o.volume) for o in b0+a0}
        try: fills=m._execution()
        except AssertionError as e: raise Viol("C03 exception in round: %r"%(e,))
        # C01
        if fills:
            V(len(set(f.price for f in fills))==1,"C01 several prices in one round")
            for f in fills:
                V((True,f.buy_order_id) in pre and (False,f.sell_order_id) in pre,"C01 unknown orders")
                bo=pre[(True,f.buy_order_id)][0]; so=pre[(False,f.sell_order_id)][0]
                V(f.volume>0,"C01 vol")
                if bo.price is not None: V(f.price<=bo.price,"C01 price above buy limit")
                if so.price is not None: V(f.price>=so.price,"C01 price below sell limit")
            f=fills[-1]; bo=pre[(True,f.buy_order_id)][0]; so=pre[(False,f.sell_order_id)][0]
            if bo.price is not None and so.price is not None:
                exp=bo.price if (bo.placed_at,bo.order_id)<(so.placed_at,so.order_id) else so.price
                V(f.price==exp,"C01 price is not the earlier order's limit")
            elif bo.price is not None or so.price is not None:
                V(f.price==(bo.price if bo.price is not None else so.price),"C01 price is not the limit side's")
            # C02
            filled=collections.Counter()
            for f in fills: filled[(True,f.buy_order_id)]+=f.volume; filled[(False,f.sell_order_id)]+=f.volume
            for side,bk in ((True,b0),(False,a0)):
                for o in bk:
                    if filled[(side,o.order_id)]>0:
                        for o2 in bk:
                            if K(o2)<K(o): V(filled[(side,o2.order_id)]==pre[(side,o2.order_id)][1],"C02 lower priority filled while higher left")
            for f in fills:
                for key in ((True,f.buy_order_id),(False,f.sell_order_id)):
                    e=s.led[id(pre[key][0])]; e["fills"]+=f.volume
                    V(e["canc"] is None and e["term"] is None,"C04 fill after terminal event")
                    o=pre[key][0]; V(o.ttl is None or f.time<=o.placed_at+o.ttl,"C04 fill after ttl")
        # C03 post
        b1,a1=s.books()
        if b1 and a1:
            bb=min(b1,key=K); ba=min(a1,key=K)
            if bb.price is not None or ba.price is not None:
                V(bb.price is not None and ba.price is not None and bb.price<ba.price,"C03 executable pair left after round")
        return fills
    def apply(s,op):
        m=s.m; n0=len(s.lg.got); fills=[]; ev=False
        if op[0]=="L":
            o=Order(0,0,op[1],LIMIT_ORDER,op[3],price=float(op[2]),ttl=op[4]); m._add_order(o); s.objs.append(o); s.led[id(o)]=dict(o=o,acc=o.volume,fills=0,term=None,canc=None); ev=True
        elif op[0]=="M":
            o=Order(0,0,op[1],MARKET_ORDER,op[2],ttl=op[3]); m._add_order(o); s.objs.append(o); s.led[id(o)]=dict(o=o,acc=o.volume,fills=0,term=None,canc=None); ev=True
        elif op[0]=="C":
            lv=s.live(); 
            if op[1]>=len(lv): return False
            o=lv[op[1]]; l=m._cancel_order(Cancel(o)); e=s.led[id(o)]
            if e["term"] is None: e["term"]=("c",l.volume); V(l.volume==e["acc"]-e["fills"],"C04 cancel volume")
            e["canc"]=m.time; ev=True
        elif op[0]=="CD":
            lvids=set(id(o) for o in s.live()); dead=[e["o"] for e in s.led.values() if id(e["o"]) not in lvids]
            if not dead: return False
            o=dead[0]; l=m._cancel_order(Cancel(o)); e=s.led[id(o)]
            if e["term"] is None: e["term"]=("c",l.volume); V(l.volume==e["acc"]-e["fills"],"C04 cancel volume dead")
            if e["canc"] is None: e["canc"]=m.time
            ev=True
        elif op[0]=="T":
            m._update_time(100.0)
            if m._is_running:
                if s.any: s.mp=s.last
                elif s.mid is not None: s.mp=s.mid
        elif op[0]=="R": m._is_running=not m._is_running
        elif op[0]=="X":
            if not m._is_running: return False
            fills=s.round()
        if s.cont and op[0] in ("L","M","C","CD") and m._is_running: fills=s.round()
        # expiry logs
        for l in s.lg.got[n0:]:
            if isinstance(l,ExpirationLog):
                es=[e for e in s.led.values() if e["o"].order_id==l.order_id]
                V(len(es)==1,"C04 expiry unknown"); e=es[0]
                V(e["term"] is None,"C04 expiry after terminal"); e["term"]=("e",l.volume)
                V(l.volume==e["acc"]-e["fills"],"C04 expiry volume"); V(m.time==e["o"].placed_at+e["o"].ttl+1,"C04 expiry time")
        # C04 membership
        lv=set(id(o) for o in s.live())
        for e in s.led.values():
            o=e["o"]; should=(e["canc"] is None and e["acc"]-e["fills"]>0 and (o.ttl is None or m.time<=o.placed_at+o.ttl))
            V((id(o) in lv)==should,"C04 membership")
            if should: V(o.volume==e["acc"]-e["fills"] and o.volume>0,"C04 resting volume")
        # C02 best
        for bk in (m.buy_order_book,m.sell_order_book):
            q=bk.priority_queue
            if q:
                V(K(bk.get_best_order())==min(map(K,q)),"C02 best order is not the priority minimum")
                for a,b in itertools.combinations(q,2):
                    V((a<b)==(K(a)<K(b)) and (b<a)==(K(b)<K(a)) and (a>b)==(K(a)>K(b)),"C02 comparator disagrees with priority")
        # C08
        if ev or fills:
            b1,a1=s.books(); bb=min(b1,key=K,default=None); ba=min(a1,key=K,default=None)
            s.mid=None if (bb is None or ba is None or bb.price is None or ba.price is None) else (bb.price+ba.price)/2
            if fills: s.last=fills[-1].price; s.any=True
            if m._is_running:
                if s.any: s.mp=s.last
                elif s.mid is not None: s.mp=s.mid
        V((m.get_market_price(),m.get_mid_price(),m.get_last_executed_price())==(s.mp,s.mid,s.last),"C08 prices %s vs %s"%((m.get_market_price(),m.get_mid_price(),m.get_last_executed_price()),(s.mp,s.mid,s.last)))
        return True
    def canon(s):
        m=s.m; now=m.time
        def ob(b): return tuple((o.kind.kind_id,o.price,o.volume,now-o.placed_at,o.ttl) for o in sorted(b.priority_queue,key=lambda o:(o.placed_at,o.order_id)))
        ndead=min(1,len(s.led)-len(s.live()))
        return (now,m._is_running,m._market_prices[now],m._last_executed_prices[now],m._mid_prices[now],ob(m.buy_order_book),ob(m.sell_order_book),ndead)
def alphabet():
    ops=[("T",)]
    for b in (True,False):
        for p in (99,100,101):
            for v in (1,2):
                for ttl in (None,1): ops.append(("L",b,p,v,ttl))
        for v in (1,2):
            for ttl in (None,1): ops.append(("M",b,v,ttl))
    ops+= [("C",i) for i in range(4)]+[("CD",),("X",),("R",)]
    return ops
SEEDS={"empty":[],
 "deep":[("L",True,99,1,None),("L",True,99,2,None),("L",True,98,1,None),("L",False,101,1,None),("L",False,101,2,None),("L",False,102,1,None)],
 "crossed_off":[("R",),("L",True,101,2,None),("L",True,100,1,None),("L",False,99,1,None),("L",False,100,2,None),("R",)],
 "mo_both":[("M",True,2,None),("M",False,1,None),("L",False,100,1,None)],
}
def build(hist,cont):
    w=World(cont)
    for op in hist:
        if w.apply(op) is False: return None
    return w
def search(seedname,cont,depth):
    ops=alphabet() if not cont else [o for o in alphabet() if o[0]!="X"]
    root=tuple(SEEDS[seedname]); 
    try: w=build(root,cont if seedname!="crossed_off" else cont)
    except Viol as e: return 0,0,{str(e):root}
    seen={w.canon()}; frontier=[root]; trans=0; fails={}
    for d in range(depth):
        nxt=[]
        for h in frontier:
            for op in ops:
                nh=h+(op,)
                try:
                    w=build(nh,cont); trans+=1
                except Viol as e:
                    fails.setdefault(str(e)[:50],nh[len(root):]); continue
                if w is None: continue
                k=w.canon()
                if k not in seen: seen.add(k); nxt.append(nh)
        frontier=nxt
    return len(seen),trans,fails
if __name__=="__main__":
    print(pams.__file__); depth=int(sys.argv[1])
    for sd in SEEDS:
        for cont in (True,False):
            t0=time.time(); st,tr,f=search(sd,cont,depth if sd=="empty" else depth-1)
            print("seed",sd,"cont",cont,"states",st,"trans",tr,"t",round(time.time()-t0,1),"fails",f)
