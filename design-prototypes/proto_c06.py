import random, warnings, sys, math
warnings.simplefilter("ignore")
import pams
from pams.runners.sequential import SequentialRunner
from pams.logs.base import Logger
from pams.agents import Agent
from pams.market import Market
from pams.index_market import IndexMarket
from pams.order import Order, LIMIT_ORDER
FAIL=[]
SNAP={}   # market_id -> {time: tuple}
CLOCK=[]
def series(m,t):
    return (m.get_market_price(t),m.get_mid_price(t),m.get_last_executed_price(t),m.get_fundamental_price(t),m.get_executed_volume(t),m.get_executed_total_price(t),m.get_n_buy_order(t),m.get_n_sell_order(t))
class Mix:
    def _update_time(s,*a,**k):
        t=s.get_time()
        if t>=0:
            SNAP.setdefault(s.market_id,{})[t]=series(s,t)   # last moment t is current
        super()._update_time(*a,**k); CLOCK.append((s.market_id,s.time))
        # check all earlier slots unchanged
        for u,val in SNAP.get(s.market_id,{}).items():
            cur=series(s,u)
            if cur!=val and not (any(isinstance(x,float) and math.isnan(x) for x in cur)): FAIL.append(("history changed",s.market_id,u,s.time,val,cur))
        for fut in (s.time+1,s.time+7):
            try: s.get_market_price(fut); FAIL.append(("future allowed",s.market_id,fut))
            except AssertionError: pass
class PM(Mix,Market): pass
class PI(Mix,IndexMarket): pass
ACTIVE=set(list(range(0,4))+list(range(97,104))+list(range(197,204)))
class A(Agent):
    def submit_orders(s,markets):
        t=markets[0].get_time()
        if t not in ACTIVE: return []
        out=[]
        for m in markets:
            if s.is_market_accessible(m.market_id): out.append(Order(s.agent_id,m.market_id,s.agent_id%2==0,LIMIT_ORDER,1,price=100.0+(t%3),ttl=2))
        return out
def run(sessions,chunk=None):
    FAIL.clear(); SNAP.clear(); CLOCK.clear()
    cfg={"simulation":{"markets":["M","I","N"],"agents":["A"],"sessions":sessions},
     "M":{"class":"PM","tickSize":1.0,"marketPrice":100.0,"numMarkets":2,"outstandingShares":3,"fundamentalDrift":0.0078125},
     "I":{"class":"PI","tickSize":1.0,"marketPrice":100.0,"markets":["M-0","M-1"]},
     "N":{"class":"PM","tickSize":1.0,"marketPrice":100.0},
     "A":{"class":"A","numAgents":2,"markets":["M","I","N"],"cashAmount":1,"assetVolume":1}}
    r=SequentialRunner(cfg,random.Random(1),Logger()); [r.class_register(c) for c in (PM,PI,A)]
    r._setup()
    if chunk:
        for m in r.simulator.markets: m.chunk_size=chunk
        r.simulator.fundamentals._generate_chunk_size=chunk
    r._run()
    # lock-step
    exp=[]; tot=sum(s["iterationSteps"] for s in sessions)
    byt={}
    for mid,t in CLOCK: byt.setdefault(t,[]).append(mid)
    if sorted(byt)!=list(range(0,tot+1)): FAIL.append(("clock values",sorted(byt)[:5],tot))
    for t,mids in byt.items():
        if sorted(mids)!=[0,1,2,3] or mids.index(2)!=3: FAIL.append(("step order",t,mids))  # index market (id 2) last
    starts=[s.session_start_time for s in r.simulator.sessions]; acc=0
    for s,st in zip(sessions,starts):
        if st!=acc: FAIL.append(("session start",st,acc))
        acc+=s["iterationSteps"]
    return list(FAIL)
S=lambda n,steps,ex: dict(sessionName=n,iterationSteps=steps,withOrderPlacement=True,withOrderExecution=ex,withPrint=False,maxNormalOrders=2)
print(pams.__file__)
print("205 default chunks", run([S(0,99,False),S(1,3,True),S(2,103,True)])[:3])
print("chunk 3", run([S(0,4,False),S(1,5,True),S(2,3,True)],chunk=3)[:3])
