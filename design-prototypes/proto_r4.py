import sys, time, math
import proto_r as P
from proto_r import *
MENU4=[None,"b100","s100","b100m1","s100m1","bothm","mob1"]
def submit(s,markets):
    c=MENU4[P.W.ch.choose("menu",len(MENU4))]; t=markets[0].get_time(); out=[]
    def mk(m,b,p,kind=LIMIT_ORDER,v=1,ttl=2): return Order(s.agent_id,m,b,kind,v,price=p,ttl=ttl)
    if c in("b100","s100"): out=[mk(0,c[0]=="b",100.0)]
    elif c in("b100m1","s100m1"): out=[mk(1,c[0]=="b",100.0)]
    elif c=="bothm": out=[mk(0,True,99.0),mk(1,True,99.0)]
    elif c=="mob1": out=[mk(1,True,None,MARKET_ORDER)]
    P.W.rec("consult",s.agent_id,len(out),t,[(o.market_id,o.is_buy,o.kind,o.price,o.volume,o.ttl) for o in out]); return out
P.SA.submit_orders=submit; P.SH.submit_orders=submit
def check_mistake(w,cfg,target,trig,rate,vol,ttl,enabled=True):
    per={}
    for e in w.ev:
        if e[0]=="consult":
            for d in e[4]: per.setdefault(e[1],[]).append(d)
    idx={a:0 for a in per}; rewritten=0; seen_first=False
    for e in w.ev:
        if e[0]=="acc":
            l=e[2]; d=per[l.agent_id][idx[l.agent_id]]; idx[l.agent_id]+=1
            got=(l.market_id,l.is_buy,l.kind,l.price,l.volume,l.ttl)
            if enabled and l.market_id==target and l.time==trig and not seen_first:
                seen_first=True
                mp=P.W.runner.simulator.id2market[target].get_market_price(trig) if False else None
                # market price at that moment: reconstruct = 100 unless trades; scenario keeps price 100 before trigger? use tolerance: price must be floor/ceil of p*(1+rate) for p in {100, 99, 99.5,...}; check fields
                if not (l.kind==LIMIT_ORDER and l.volume==vol and l.ttl==ttl and l.is_buy==(rate>0)): return "C14 mistake order fields %s"%(got,)
                if l.price not in (math.floor(100*(1+rate)),math.ceil(100*(1+rate)),math.floor(99.5*(1+rate)),math.ceil(99.5*(1+rate)),math.floor(99*(1+rate)),math.ceil(99*(1+rate))): return "C14 mistake price %s"%l.price
                rewritten+=1
            else:
                if got!=d: return "C14 order changed: asked %s accepted %s"%(d,got)
    return None
def check_fshock(w,cfg,target,window,rate):
    sim=w.runner.simulator; T=sim.markets[0].get_time()
    for m in sim.markets:
        for t in range(T+1):
            k=sum(1 for x in window if x<=t and x<T) if m.market_id==target else 0
            exp=100.0*(1+rate)**k
            if abs(m.get_fundamental_price(t)-exp)>1e-9: return "C14 fundamental of market %d at %d is %s expected %s"%(m.market_id,t,m.get_fundamental_price(t),exp)
if __name__=="__main__":
    print(pams.__file__); bound=int(sys.argv[1])
    S=lambda n,steps,pl,ex,**k: dict(sessionName=n,iterationSteps=steps,withOrderPlacement=pl,withOrderExecution=ex,withPrint=False,**k)
    tot=0; fails={}
    for target in (0,1):
      for sidx,trig in ((0,1),(1,0),(1,1)):
        for rate in (0.5,-0.5):
          sess=[S(0,2,True,False,maxNormalOrders=2),S(1,3,True,True,maxNormalOrders=2)]
          sess[sidx]["events"]=["O"]
          cfg=P.mkcfg(sess,nn=2,nh=1,nm=2,events={"O":{"class":"OrderMistakeShock","target":"M%d"%target,"triggerTime":trig,"priceChangeRate":rate,"orderVolume":5,"orderTimeLength":3}})
          abs_trig=trig+(2 if sidx==1 else 0)
          n,f=P.explore(cfg,[lambda w,cfg=cfg,target=target,abs_trig=abs_trig,rate=rate:check_mistake(w,cfg,target,abs_trig,rate,5,3)],bound); tot+=n
          for k,v in f.items(): fails.setdefault(k[:90],((target,sidx,trig,rate),v))
    print("mistake runs",tot,"fails",fails)
    tot=0; fails={}
    for target in (0,1):
      for sidx,trig,L in ((0,0,1),(0,1,2),(1,0,1),(1,1,2),(1,2,2)):
        for rate in (0.5,-0.5):
          sess=[S(0,2,True,False,maxNormalOrders=2),S(1,3,True,True,maxNormalOrders=2)]
          sess[sidx]["events"]=["F"]
          cfg=P.mkcfg(sess,nn=2,nh=0,nm=2,events={"F":{"class":"FundamentalPriceShock","target":"M%d"%target,"triggerTime":trig,"priceChangeRate":rate,"shockTimeLength":L}})
          a=trig+(2 if sidx==1 else 0); window=[a+i for i in range(L)]
          n,f=P.explore(cfg,[lambda w,cfg=cfg,target=target,window=window,rate=rate:check_fshock(w,cfg,target,window,rate)],min(bound,1)); tot+=n
          for k,v in f.items(): fails.setdefault(k[:90],((target,sidx,trig,L,rate),v))
    print("fshock runs",tot,"fails",fails)
