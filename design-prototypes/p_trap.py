import sys, json, random, warnings, copy, os, glob, time, traceback
warnings.simplefilter("ignore")
import numpy as np
import pams
from pams.runners.sequential import SequentialRunner
from pams.logs.base import Logger
TRAPS=[]
def trap(name):
    def f(*a,**k):
        st=traceback.extract_stack(limit=8)
        TRAPS.append((name,[ (x.filename.split("/")[-1],x.lineno) for x in st[:-1] if "pams" in x.filename][-2:]))
        raise RuntimeError("ambient source used: "+name)
    return f
def install():
    import random as R
    for fn in ("random","uniform","randint","choice","choices","sample","shuffle","gauss","normalvariate","expovariate","randrange","getrandbits","seed","betavariate","triangular"):
        setattr(R,fn,trap("random."+fn))
    for fn in ("rand","randn","random","normal","uniform","randint","choice","shuffle","permutation","seed","standard_normal","random_sample"):
        setattr(np.random,fn,trap("numpy.random."+fn))
    orig_rng=np.random.default_rng
    def rng(seed=None,*a,**k):
        if seed is None: return trap("numpy.random.default_rng()")()
        return orig_rng(seed,*a,**k)
    np.random.default_rng=rng
    orig_init=R.Random.__init__
    class _R(R.Random): pass
    o_seed=R.Random.seed
    def seed(self,a=None,*x,**k):
        if a is None: trap("random.Random() unseeded")()
        return o_seed(self,a,*x,**k)
    R.Random.seed=seed
    os.urandom=trap("os.urandom")
    for fn in ("time","time_ns","perf_counter","monotonic"): setattr(time,fn,trap("time."+fn))
install()
def shrink(cfg):
    cfg=copy.deepcopy(cfg)
    for k,v in cfg.items():
        if isinstance(v,dict) and "numAgents" in v: v["numAgents"]=min(v["numAgents"],8)
    for s in cfg["simulation"]["sessions"]: s["iterationSteps"]=min(s["iterationSteps"],30)
    for k,v in cfg.items():
        if isinstance(v,dict) and "triggerTime" in v: v["triggerTime"]=min(v["triggerTime"],5)
    return cfg
for path in sorted(glob.glob("/repo/samples/*/config*.json")):
    if "market_share" in path or "user_class" in path: continue
    cfg=shrink(json.load(open(path)))
    prng=random.Random(3)
    try:
        r=SequentialRunner(cfg,prng,Logger()); r._setup(); r._run(); print("ok",path.split("/")[-2])
    except Exception as e: print("EXC",path.split("/")[-2],repr(e)[:200],TRAPS[-1:] )
